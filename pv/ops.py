"""Face-basis scenarios over the real term builders (shared by C01, C05, C06).

For a grid class, cell counts and builder T, every face f in turn carries a symbolic coefficient c
(any sign) while all other faces are exactly 0; phi is fully symbolic (interior + ghost).  All
operators are (piecewise) linear in the coefficient field and separable per face (that lemma is
discharged on the fully symbolic field in C17), so identities on this basis cover all fields.
"""
import itertools
import numpy as np
import pyfvtool as pf
from . import scen
from .scen import AX

TERMS = ('diffusion', 'central', 'upwind')


def build(term, U, Uup=None):
    if term == 'diffusion':
        return pf.diffusionTerm(U)
    if term == 'central':
        return pf.convectionTerm(U)
    if term == 'upwind':
        return pf.convectionUpwindTerm(U) if Uup is None else pf.convectionUpwindTerm(U, Uup)
    raise KeyError(term)


def chain(term, U, phi, Uup=None):
    """the explicit gradient / mean / divergence chain for the same operator"""
    if term == 'diffusion':
        return pf.divergenceTerm(U * pf.gradientTerm(phi))
    if term == 'central':
        return pf.divergenceTerm(U * pf.linearMean(phi))
    if term == 'upwind':
        return pf.divergenceTerm(U * pf.upwindMean(phi, U if Uup is None else Uup))
    raise KeyError(term)


def faces(dims):
    out = []
    for ax, sh in enumerate(scen.face_shapes(dims)):
        for fidx in itertools.product(*[range(s) for s in sh]):
            out.append((ax, fidx))
    return out


def adj(ax, fidx):
    lo = tuple((k if b == ax else k + 1) for b, k in enumerate(fidx))
    hi = tuple((k + 1 if b == ax else k + 1) for b, k in enumerate(fidx))
    return lo, hi


def fname(ax, fidx):
    return '%s%s' % (AX[ax], '_'.join(map(str, fidx)))


def is_interior(c, dims):
    return all(1 <= k <= int(n) for k, n in zip(c, dims))


def face_basis(ctx, g, dims, term, prop, only_axis=None):
    m, fs = scen.mesh(ctx, g, dims)
    geo = scen.Geo(ctx, g, fs)
    V = m.cellvolume
    G = scen.cell_index(dims)
    phi_full = ctx.arr('p', scen.full_shape(dims))
    phi = pf.CellVariable(m, phi_full)
    pv = scen.flat(phi._value)
    c = ctx.real('c')
    kconst = ctx.real('k')
    ds = 'x'.join(map(str, dims))
    tag = '%s/%s/%s/%s' % (prop, g, ds, term)
    for ax, fidx in faces(dims):
        if only_axis is not None and ax != only_axis:
            continue
        U = scen.unit_face(ctx, m, ax, fidx, c)
        M = build(term, U)
        rows = scen.mat_rows(M)
        lo, hi = adj(ax, fidx)
        fn = fname(ax, fidx)
        boundary = None
        if fidx[ax] == 0:
            boundary = 'lo'
        elif fidx[ax] == dims[ax]:
            boundary = 'hi'
        int_rows = [cc for cc in scen.interior_cells(dims) if int(G[cc]) in rows]
        if prop == 'C01':
            if boundary is None:
                # columns that may legitimately carry a coefficient of this face: lo/hi and their
                # neighbours along the axis; every other column must be structurally empty / zero
                cols = []
                for base_c in (lo, hi):
                    for dlt in (-1, 0, 1):
                        cc2 = tuple(k + (dlt if b == ax else 0) for b, k in enumerate(base_c))
                        if all(0 <= k <= int(n) + 1 for k, n in zip(cc2, dims)) and int(G[cc2]) not in cols:
                            cols.append(int(G[cc2]))
                stray = []
                for j in sorted(cols):
                    s = ctx.const(0)
                    for cc in int_rows:
                        for jj, v in rows[int(G[cc])]:
                            if jj == j:
                                s = s + V[tuple(k - 1 for k in cc)] * v
                    ctx.eq('%s/interior/%s/col%d' % (tag, fn, j), s, 0.0)
                for cc in int_rows:
                    for jj, v in rows[int(G[cc])]:
                        if jj not in cols and not ctx.is_zero_term(v):
                            stray.append((cc, jj))
                ctx.fact('%s/interior/%s/nostray' % (tag, fn), not stray, 'entries outside the face stencil: %s' % stray[:3])
            else:
                s = ctx.const(0)
                for cc in int_rows:
                    s = s + V[tuple(k - 1 for k in cc)] * scen.matvec_row(rows, int(G[cc]), pv, ctx)
                cin, cg = (hi, lo) if boundary == 'lo' else (lo, hi)
                pin, pg = phi_full[cin], phi_full[cg]
                A = geo.area(ax, fidx)
                i0 = tuple(k - 1 for k in cin)
                dist = geo.d(ax, i0[ax]) * geo.metric(ax, i0)
                sgn = 1.0 if boundary == 'hi' else -1.0
                if term == 'diffusion':
                    exp = A * c * (pg - pin) / dist
                elif term == 'central':
                    exp = sgn * A * c * (pg + pin) / 2
                else:
                    avg = (pg + pin) / 2
                    if boundary == 'hi':
                        val = ctx.where(c > 0, pin, avg)
                    else:
                        val = ctx.where(c > 0, avg, pin)
                    exp = sgn * A * c * val
                ctx.eq('%s/boundary/%s' % (tag, fn), s, exp, rel=1e-12)
        elif prop == 'C05':
            ch = chain(term, U, phi)
            for cc in (lo, hi):
                if not is_interior(cc, dims):
                    continue
                r = int(G[cc])
                ctx.eq('%s/row/%s/%s' % (tag, fn, '_'.join(map(str, cc))),
                       scen.matvec_row(rows, r, pv, ctx), ch[r])
            # rows not adjacent to the face carry nothing (matrix) and nothing (chain)
            stray = [cc for cc in int_rows if cc not in (lo, hi)
                     and any(not ctx.is_zero_term(v) for _, v in rows[int(G[cc])])]
            ctx.fact('%s/nostray/%s' % (tag, fn), not stray, 'matrix entries in non-adjacent rows %s' % stray[:3])
        elif prop == 'C06':
            ones = [kconst] * len(pv)
            dv = pf.divergenceTerm(U)
            for cc in (lo, hi):
                if not is_interior(cc, dims):
                    continue
                r = int(G[cc])
                lhs = scen.matvec_row(rows, r, ones, ctx)
                rhs = 0.0 if term == 'diffusion' else kconst * dv[r]
                ctx.eq('%s/uniform/%s/%s' % (tag, fn, '_'.join(map(str, cc))), lhs, rhs)
        else:
            raise KeyError(prop)


def divergence_basis(ctx, g, dims):
    """C01 item 3: sum_i V_i div(e_f)_i = 0 (interior face), = +-A(f) (boundary face)"""
    m, fs = scen.mesh(ctx, g, dims)
    geo = scen.Geo(ctx, g, fs)
    V = m.cellvolume
    G = scen.cell_index(dims)
    c = ctx.real('c')
    tag = 'C01/%s/%s/divergence' % (g, 'x'.join(map(str, dims)))
    for ax, fidx in faces(dims):
        U = scen.unit_face(ctx, m, ax, fidx, c)
        dv = pf.divergenceTerm(U)
        s = ctx.const(0)
        for cc in scen.interior_cells(dims):
            s = s + V[tuple(k - 1 for k in cc)] * dv[int(G[cc])]
        fn = fname(ax, fidx)
        if fidx[ax] == 0:
            ctx.eq('%s/boundary/%s' % (tag, fn), s, -geo.area(ax, fidx) * c, rel=1e-12)
        elif fidx[ax] == dims[ax]:
            ctx.eq('%s/boundary/%s' % (tag, fn), s, geo.area(ax, fidx) * c, rel=1e-12)
        else:
            ctx.eq('%s/interior/%s' % (tag, fn), s, 0.0)
        # ghost entries of the returned vector are exactly zero
    dvf = pf.divergenceTerm(scen.facevar(ctx, m, 'F'))
    ghost_nz = [cc for cc in scen.all_cells(dims) if not is_interior(cc, dims) and not ctx.is_zero_term(dvf[int(G[cc])])]
    ctx.fact(tag + '/ghost_rows_zero', not ghost_nz, 'non-zero ghost components %s' % ghost_nz[:3])
