"""Shared scenario building blocks: the nine grid classes with symbolic geometry, symbolic
cell/face variables, boundary-condition configurations, the solver stub, matrix access and the
independent geometric oracle (textbook volumes / areas / metric factors)."""
import itertools
import math
import numpy as np
import pyfvtool as pf
from . import symreal as sr
from . import symnp
from .symreal import Sym, SymB

PI = math.pi
TWO_PI = 2 * math.pi

# name -> (class, ndim, coordinate system, labels)
GRIDS = {
    'Grid1D': (pf.Grid1D, 1, 'cart', ('x',)),
    'CylindricalGrid1D': (pf.CylindricalGrid1D, 1, 'cyl', ('r',)),
    'SphericalGrid1D': (pf.SphericalGrid1D, 1, 'sph', ('r',)),
    'Grid2D': (pf.Grid2D, 2, 'cart', ('x', 'y')),
    'CylindricalGrid2D': (pf.CylindricalGrid2D, 2, 'cylrz', ('r', 'z')),
    'PolarGrid2D': (pf.PolarGrid2D, 2, 'polar', ('r', 'theta')),
    'Grid3D': (pf.Grid3D, 3, 'cart', ('x', 'y', 'z')),
    'CylindricalGrid3D': (pf.CylindricalGrid3D, 3, 'cyl3', ('r', 'theta', 'z')),
    'SphericalGrid3D': (pf.SphericalGrid3D, 3, 'sph3', ('r', 'theta', 'phi')),
}
ALL = list(GRIDS)
G1 = ['Grid1D', 'CylindricalGrid1D', 'SphericalGrid1D']
G2 = ['Grid2D', 'CylindricalGrid2D', 'PolarGrid2D']
G3 = ['Grid3D', 'CylindricalGrid3D', 'SphericalGrid3D']
SIDES = ['left', 'right', 'bottom', 'top', 'back', 'front']
AX = 'xyz'


def ndim(g):
    return GRIDS[g][1]


def radial(g):
    return GRIDS[g][2] != 'cart'


def axis_kind(g, ax):
    """'len' (length-like coordinate) or 'ang' (angle)"""
    lab = GRIDS[g][3][ax]
    return 'ang' if lab in ('theta', 'phi') else 'len'


def periodic_ok(g, ax):
    return not (radial(g) and ax == 0)


def E(ctx):
    return symnp.symarray(np.array([])) if ctx.sym else np.array([])


def mesh(ctx, g, dims, prefix='f', scale=None, uniform=False, r0zero=False):
    """build the grid through its face-position constructor with symbolic strictly increasing faces.
    returns (mesh, [faces per axis]).  scale: optional per-axis multiplier (C17)."""
    cls, nd, cs, labels = GRIDS[g]
    fs = []
    for ax in range(nd):
        lo = hi = None
        if ax == 0 and cs != 'cart':
            lo = 0.0
        if labels[ax] == 'theta':
            if cs == 'sph3':
                lo, hi = 0.0, PI
            else:
                hi = TWO_PI
        if labels[ax] == 'phi':
            hi = TWO_PI
        n = dims[ax]
        if uniform:
            x0 = ctx.real('%s%s_0' % (prefix, AX[ax]), 'any') if not (ax == 0 and cs != 'cart' and r0zero) else ctx.const(0.0)
            h = ctx.real('%s%s_h' % (prefix, AX[ax]), 'pos')
            if lo is not None and not (ax == 0 and r0zero):
                ctx.assume(x0 >= lo)
            f = np.empty(n + 1, dtype=object)
            for i in range(n + 1):
                f[i] = x0 + h * i
            if hi is not None:
                ctx.assume(f[n] <= hi)
            f = f.view(symnp.SymArray) if ctx.sym else f.astype(float)
        else:
            f = ctx.faces('%s%s' % (prefix, AX[ax]), n, lo=lo, hi=hi)
            if r0zero and ax == 0 and cs != 'cart':
                ctx.assume(f[0] == 0)
        if scale is not None and scale[ax] is not None:
            f = f * scale[ax]
        fs.append(f)
    m = cls(*fs)
    if cs == 'sph3':
        sph_axioms(ctx, m)
    return m, fs


def sph_axioms(ctx, m):
    """true facts about sin on (0, pi) for the theta values occurring on a SphericalGrid3D"""
    if not ctx.sym:
        return
    th_c = m.cellcenters._y
    th_f = m.facecenters._y
    for t in np.asarray(th_c).ravel():
        ctx.axiom(np.sin(t) > 0, 'sin(theta_P) > 0 at every theta cell centre (0 < theta_P < pi)')
    n = len(th_f) - 1
    for k, t in enumerate(np.asarray(th_f).ravel()):
        if 0 < k < n:
            ctx.axiom(np.sin(t) > 0, 'sin(theta_f) > 0 at interior theta faces (0 < theta_f < pi)')
        else:
            ctx.axiom(np.sin(t) >= 0, 'sin(theta_f) >= 0 at the first/last theta face (0 <= theta_f <= pi)')
    # cos is strictly decreasing on [0, pi]: instances for consecutive faces
    tf = list(np.asarray(th_f).ravel())
    for a, b in zip(tf[:-1], tf[1:]):
        ctx.axiom(np.cos(a) > np.cos(b), 'cos strictly decreasing on [0, pi] (consecutive theta faces)')
    for t in tf:
        ctx.axiom(ctx.And(np.cos(t) <= 1, np.cos(t) >= -1), '|cos| <= 1')


def face_shapes(dims):
    nd = len(dims)
    out = []
    for ax in range(nd):
        sh = list(dims)
        sh[ax] += 1
        out.append(tuple(sh))
    return out


def facevar(ctx, m, prefix, kind='any', zero_axes=()):
    dims = [int(d) for d in m.dims]
    comps = []
    for ax in range(3):
        if ax < len(dims):
            sh = face_shapes(dims)[ax]
            if ax in zero_axes:
                comps.append(zeros(ctx, sh))
            else:
                comps.append(ctx.arr(prefix + AX[ax], sh, kind))
        else:
            comps.append(E(ctx))
    return pf.FaceVariable(m, *comps)


def zeros(ctx, shape):
    if ctx.sym:
        a = np.empty(shape, dtype=object)
        a.fill(sr.Q(0))
        return a.view(symnp.SymArray)
    return np.zeros(shape)


def unit_face(ctx, m, ax, idx, c):
    """FaceVariable that is c on face (ax, idx) and exactly 0 elsewhere"""
    dims = [int(d) for d in m.dims]
    comps = []
    for a in range(3):
        if a < len(dims):
            z = zeros(ctx, face_shapes(dims)[a])
            if a == ax:
                z[idx] = c
            comps.append(z)
        else:
            comps.append(E(ctx))
    return pf.FaceVariable(m, *comps)


def facevar_from(ctx, m, comps):
    comps = list(comps) + [E(ctx)] * (3 - len(comps))
    return pf.FaceVariable(m, *comps)


def fcomp(F, ax):
    return (F._xvalue, F._yvalue, F._zvalue)[ax]


def full_shape(dims):
    return tuple(int(d) + 2 for d in dims)


def interior(a):
    return a[tuple(slice(1, -1) for _ in range(a.ndim))]


def cellvar(ctx, m, prefix, kind='any', BC=None, full=False):
    dims = [int(d) for d in m.dims]
    vals = ctx.arr(prefix, full_shape(dims) if full else tuple(dims), kind)
    if BC is None:
        return pf.CellVariable(m, vals)
    return pf.CellVariable(m, vals, BC)


def base(a):
    return np.asarray(a).view(np.ndarray) if isinstance(a, np.ndarray) else a


def flat(a):
    return list(base(a).ravel())


# ---- matrices -----------------------------------------------------------------------------------
def mat_rows(M):
    """dict row -> list of (col, value) over stored entries"""
    if isinstance(M, symnp.SymCSR):
        return M.rows()
    C = M.tocoo()
    rows = {}
    acc = {}
    for i, j, v in zip(C.row, C.col, C.data):
        acc[(int(i), int(j))] = acc.get((int(i), int(j)), 0.0) + float(v)
    for (i, j), v in acc.items():
        rows.setdefault(i, []).append((j, v))
    return rows


def mat_get(M, i, j):
    if isinstance(M, symnp.SymCSR):
        return M.get(i, j)
    return float(M[i, j])


def mat_keys(M):
    if isinstance(M, symnp.SymCSR):
        return set(M.d.keys())
    C = M.tocoo()
    return {(int(i), int(j)) for i, j in zip(C.row, C.col)}


def matvec_row(rows, i, x, ctx):
    r = ctx.const(0)
    for j, v in rows.get(i, []):
        r = r + v * x[j]
    return r


def cell_index(dims):
    fs = full_shape(dims)
    return np.arange(int(np.prod(fs))).reshape(fs)


def interior_cells(dims):
    return list(itertools.product(*[range(1, int(d) + 1) for d in dims]))


def all_cells(dims):
    return list(itertools.product(*[range(0, int(d) + 2) for d in dims]))


def n_out(idx, dims):
    return sum(1 for k, n in zip(idx, dims) if k == 0 or k == int(n) + 1)


class Solver:
    """solver stub: symbolic mode returns fresh unknowns and records (M, RHS) exactly as handed
    over; concrete mode really solves (scipy spsolve) and publishes the solution under the same
    names, so that obligations stated 'under the hypothesis M x = RHS' can be replayed.
    alias: optional {flat index -> flat index}: the unknown at the key is the SAME symbol as the one
    at the value (used to eliminate ghost unknowns by their boundary rows, which are then checked
    as identities by the scenario)."""

    def __init__(self, ctx, prefix='x', alias=None, lift=None):
        self.ctx = ctx
        self.prefix = prefix
        self.calls = 0
        self.alias = alias or {}
        self.lift = lift
        self.M = self.RHS = self.x = None

    def __call__(self, M, RHS):
        ctx = self.ctx
        self.calls += 1
        self.M, self.RHS = M, RHS
        n = M.shape[0]
        pre = self.prefix if self.calls == 1 else '%s%d' % (self.prefix, self.calls)
        if ctx.sym:
            if self.lift is not None:
                self.x = self.lift(n)
                return self.x
            x = np.empty(n, dtype=object)
            for i in range(n):
                if i not in self.alias:
                    x[i] = ctx.real('%s_%d' % (pre, i))
            for i, j in self.alias.items():
                x[i] = x[j]
            self.x = x.view(symnp.SymArray)
            return self.x
        from scipy.sparse.linalg import spsolve
        x = np.asarray(spsolve(M, RHS), dtype=float)
        for i in range(n):
            ctx.env['%s_%d' % (pre, i)] = float(x[i])
        self.x = x
        return x

    def hyps(self, rows_subset=None):
        """M x = RHS as a list of conditions (symbolic) / [] when concrete"""
        ctx = self.ctx
        if not ctx.sym:
            return []
        rows = mat_rows(self.M)
        out = []
        for i in range(self.M.shape[0]):
            if rows_subset is not None and i not in rows_subset:
                continue
            out.append(matvec_row(rows, i, self.x, ctx) == self.RHS[i])
        return out


# ---- boundary-condition configurations ----------------------------------------------------------
def sides_of(g):
    return SIDES[:2 * ndim(g)]


def side_axis(side):
    return SIDES.index(side) // 2


def set_robin(ctx, BC, side, prefix=None, a=None, b=None, c=None):
    """fully symbolic face-wise (a,b,c) on one side (or given values)"""
    f = getattr(BC, side)
    p = prefix or side
    sh = f.a.shape
    f.a[:] = ctx.arr(p + 'a', sh) if a is None else a
    f.b[:] = ctx.arr(p + 'b', sh) if b is None else b
    shc = f.c.shape
    f.c[:] = ctx.arr(p + 'c', shc) if c is None else c
    return f


def periodic_patterns(g):
    """all subsets of axes that may be periodic on grid class g"""
    axes = [ax for ax in range(ndim(g)) if periodic_ok(g, ax)]
    out = []
    for k in range(len(axes) + 1):
        out += list(itertools.combinations(axes, k))
    return out


# ---- independent geometric oracle ---------------------------------------------------------------
class Geo:
    """textbook geometry of a structured grid from its face positions (written independently of
    pyfvtool.mesh): cell volumes, face areas, centre distances, metric factors."""

    def __init__(self, ctx, g, fs):
        self.ctx = ctx
        self.g = g
        self.cs = GRIDS[g][2]
        self.fs = [list(base(f).ravel()) for f in fs]
        self.dims = [len(f) - 1 for f in self.fs]
        self.nd = len(self.dims)

    def _cos(self, t):
        return self.ctx.fn('cos', t)

    def _sin(self, t):
        return self.ctx.fn('sin', t)

    def d(self, ax, i):
        """width of interior cell i (0-based) along axis ax"""
        return self.fs[ax][i + 1] - self.fs[ax][i]

    def centre(self, ax, i):
        return (self.fs[ax][i + 1] + self.fs[ax][i]) / 2

    def volume(self, idx):
        cs = self.cs
        f = self.fs
        i = idx[0]
        if cs == 'cart':
            v = self.d(0, i)
            for ax in range(1, self.nd):
                v = v * self.d(ax, idx[ax])
            return v
        r1, r2 = f[0][i], f[0][i + 1]
        if cs == 'cyl':
            return PI * (r2 * r2 - r1 * r1)
        if cs == 'sph':
            return 4.0 / 3.0 * PI * (r2 * r2 * r2 - r1 * r1 * r1)
        if cs == 'cylrz':
            return PI * (r2 * r2 - r1 * r1) * self.d(1, idx[1])
        if cs == 'polar':
            return (r2 * r2 - r1 * r1) / 2 * self.d(1, idx[1])
        if cs == 'cyl3':
            return (r2 * r2 - r1 * r1) / 2 * self.d(1, idx[1]) * self.d(2, idx[2])
        if cs == 'sph3':
            t1, t2 = f[1][idx[1]], f[1][idx[1] + 1]
            return (r2 * r2 * r2 - r1 * r1 * r1) / 3 * (self._cos(t1) - self._cos(t2)) * self.d(2, idx[2])
        raise ValueError(cs)

    def area(self, ax, fidx):
        """area of the face with index tuple fidx in the face array of axis ax"""
        cs = self.cs
        f = self.fs
        if cs == 'cart':
            a = 1.0
            for b in range(self.nd):
                if b != ax:
                    a = a * self.d(b, fidx[b])
            return a
        if cs == 'cyl':
            return TWO_PI * f[0][fidx[0]]
        if cs == 'sph':
            r = f[0][fidx[0]]
            return 4.0 * PI * r * r
        if cs == 'cylrz':
            if ax == 0:
                return TWO_PI * f[0][fidx[0]] * self.d(1, fidx[1])
            r1, r2 = f[0][fidx[0]], f[0][fidx[0] + 1]
            return PI * (r2 * r2 - r1 * r1)
        if cs == 'polar':
            if ax == 0:
                return f[0][fidx[0]] * self.d(1, fidx[1])
            return self.d(0, fidx[0])
        if cs == 'cyl3':
            if ax == 0:
                return f[0][fidx[0]] * self.d(1, fidx[1]) * self.d(2, fidx[2])
            if ax == 1:
                return self.d(0, fidx[0]) * self.d(2, fidx[2])
            r1, r2 = f[0][fidx[0]], f[0][fidx[0] + 1]
            return (r2 * r2 - r1 * r1) / 2 * self.d(1, fidx[1])
        if cs == 'sph3':
            if ax == 0:
                r = f[0][fidx[0]]
                t1, t2 = f[1][fidx[1]], f[1][fidx[1] + 1]
                return r * r * (self._cos(t1) - self._cos(t2)) * self.d(2, fidx[2])
            r1, r2 = f[0][fidx[0]], f[0][fidx[0] + 1]
            if ax == 1:
                return (r2 * r2 - r1 * r1) / 2 * self._sin(f[1][fidx[1]]) * self.d(2, fidx[2])
            return (r2 * r2 - r1 * r1) / 2 * self.d(1, fidx[1])
        raise ValueError(cs)

    def metric(self, ax, idx):
        """length per unit coordinate along axis ax at the centre of interior cell idx
        (1 for lengths, r_P for theta, r_P sin(theta_P) for phi)"""
        cs = self.cs
        if ax == 0 or cs in ('cart', 'cylrz'):
            return 1.0
        rP = self.centre(0, idx[0])
        if cs in ('polar', 'cyl3'):
            return rP if ax == 1 else 1.0
        if cs == 'sph3':
            if ax == 1:
                return rP
            return rP * self._sin(self.centre(1, idx[1]))
        raise ValueError(cs)

    def domain_volume(self):
        tot = 0.0
        for idx in itertools.product(*[range(n) for n in self.dims]):
            tot = tot + self.volume(idx)
        return tot


def ghost_alias(g, dims, periodic_axes):
    """{ghost flat index -> interior flat index}: inner neighbour (no-flux) or periodic image"""
    G = cell_index(dims)
    out = {}
    for cc in all_cells(dims):
        outs = [b for b, (k, n) in enumerate(zip(cc, dims)) if k == 0 or k == int(n) + 1]
        if len(outs) != 1:
            continue
        ax = outs[0]
        n = int(dims[ax])
        tgt = list(cc)
        if ax in periodic_axes:
            tgt[ax] = n if cc[ax] == 0 else 1
        else:
            tgt[ax] = 1 if cc[ax] == 0 else n
        out[int(G[cc])] = int(G[tuple(tgt)])
    return out


def stencil_keys(dims):
    """(row, col) pairs of the 3-point-per-axis stencil of every interior row (mode-independent key set)"""
    G = cell_index(dims)
    keys = set()
    for cc in interior_cells(dims):
        for ax in range(len(dims)):
            for dlt in (-1, 0, 1):
                c2 = list(cc); c2[ax] += dlt
                keys.add((int(G[cc]), int(G[tuple(c2)])))
    return sorted(keys)
