"""Symbolic reals: hash-consed expression DAG with SMT-LIB printing and float evaluation.

The real PyFVTool code is executed over NumPy ``dtype=object`` arrays whose elements are
``Sym`` instances; every scalar operation NumPy performs calls back into the operators
below, which build the DAG.  Nothing here knows anything about PyFVTool.

Model of arithmetic: float64 operations are modelled as exact operations on the reals, with
every float64 literal mapped to the simplest real that round-trips to it (``real_of_float``: small
fractions such as 1/3, else the shortest decimal that prints the double).
"""
from fractions import Fraction
import itertools
import math
import numpy as _np

_ND = _np.ndarray
_ids = itertools.count()
_cache = {}


class Node:
    __slots__ = ('op', 'args', 'id', 'sort')

    def __init__(s, op, args, sort):
        s.op = op
        s.args = args
        s.sort = sort
        s.id = next(_ids)

    def __repr__(s):
        return 'N%d:%s' % (s.id, s.op)


def mk(op, args, sort='Real'):
    key = (op, sort) + tuple(a.id if isinstance(a, Node) else ('#', a) for a in args)
    n = _cache.get(key)
    if n is None:
        n = Node(op, args, sort)
        _cache[key] = n
    return n


def real_of_float(x):
    """the real number a float64 literal stands for.  float64 arithmetic is modelled as exact real arithmetic, so every double has
    to be mapped to SOME real within half an ulp; the choice is the simplest one that round-trips: an integer, a fraction with a
    small denominator (1/3, 4/3, 0.25 ...), else the shortest decimal that prints the double (1e-16 -> 1/10^16, np.pi ->
    3.141592653589793).  Taking the exact binary value instead would make `x/(1/3*v)` and `3*x/v` - the same formula to a
    maintainer - differ by 5e-17 relative, a difference no float64 replay can confirm."""
    if x == int(x) and abs(x) < 2 ** 53:
        return Fraction(int(x))
    f = Fraction(x).limit_denominator(4096)
    if float(f) == x:
        return f
    return Fraction(repr(float(x)))


def const(q):
    if isinstance(q, float):
        q = real_of_float(q)
    return mk('const', (Fraction(q),))


def var(name, sort='Real'):
    return mk('var', (name,), sort)


ZERO = const(0)
ONE = const(1)


class Concretize(Exception):
    """A symbolic value was forced to a concrete Python number/bool outside a path executor."""


# ---------------------------------------------------------------------------------------
# definedness obligations: every division records (denominator, path-condition snapshot)
DIVS = []          # list of (den_node, tuple(pc_nodes))
PC = []            # current path condition / preconditions (Bool nodes); managed by Ctx/pathexec
RECORD_DIVS = [True]


def reset_divs():
    del DIVS[:]


def lift(x):
    """python/numpy number or Sym/SymB -> Real node"""
    if isinstance(x, Sym):
        return x.n
    if isinstance(x, SymB):
        return ite(x.n, ONE, ZERO)
    if isinstance(x, (bool, _np.bool_)):
        return const(int(x))
    if isinstance(x, (int, Fraction)):
        return const(x)
    if isinstance(x, float):
        if x != x or x in (math.inf, -math.inf):
            raise Concretize('non-finite literal %r enters symbolic arithmetic' % x)
        return const(real_of_float(x))
    if isinstance(x, _np.integer):
        return const(int(x))
    if isinstance(x, _np.floating):
        return lift(float(x))
    if isinstance(x, _ND) and x.ndim == 0:
        return lift(x.item())
    raise TypeError('cannot lift %r' % type(x))


def isc(n):
    return n.op == 'const'


def cv(n):
    return n.args[0]


def add(a, b):
    if isc(a) and isc(b):
        return const(cv(a) + cv(b))
    if isc(a) and cv(a) == 0:
        return b
    if isc(b) and cv(b) == 0:
        return a
    return mk('+', (a, b))


def mul(a, b):
    if isc(a) and isc(b):
        return const(cv(a) * cv(b))
    if isc(a):
        if cv(a) == 0:
            return a
        if cv(a) == 1:
            return b
    if isc(b):
        if cv(b) == 0:
            return b
        if cv(b) == 1:
            return a
    return mk('*', (a, b))


def neg(a):
    if isc(a):
        return const(-cv(a))
    if a.op == 'neg':
        return a.args[0]
    return mk('neg', (a,))


def sub(a, b):
    if a is b:
        return ZERO
    return add(a, neg(b))


def div(a, b):
    if isc(b):
        if cv(b) == 0:
            if RECORD_DIVS[0]:
                DIVS.append((b, tuple(PC)))
            return mk('/', (a, b))
        return mul(a, const(1 / cv(b)))
    if RECORD_DIVS[0]:
        DIVS.append((b, tuple(PC)))
    if isc(a) and cv(a) == 0:
        return a          # 0/x: value 0 wherever defined; definedness recorded above
    return mk('/', (a, b))


def ite(c, a, b):
    if c.op == 'bconst':
        return a if c.args[0] else b
    if a is b:
        return a
    return mk('ite', (c, a, b))


TRUE = mk('bconst', (True,), 'Bool')
FALSE = mk('bconst', (False,), 'Bool')


def bconst(v):
    return TRUE if v else FALSE


def cmp(op, a, b):
    if isc(a) and isc(b):
        x, y = cv(a), cv(b)
        return bconst({'<': x < y, '<=': x <= y, '=': x == y}[op])
    if a is b:
        return bconst(op != '<')
    return mk(op, (a, b), 'Bool')


def bnot(a):
    if a.op == 'bconst':
        return bconst(not a.args[0])
    if a.op == 'not':
        return a.args[0]
    return mk('not', (a,), 'Bool')


def band(a, b):
    if a.op == 'bconst':
        return b if a.args[0] else a
    if b.op == 'bconst':
        return a if b.args[0] else b
    if a is b:
        return a
    return mk('and', (a, b), 'Bool')


def bor(a, b):
    if a.op == 'bconst':
        return a if a.args[0] else b
    if b.op == 'bconst':
        return b if b.args[0] else a
    if a is b:
        return a
    return mk('or', (a, b), 'Bool')


def conj(nodes):
    r = TRUE
    for n in nodes:
        r = band(r, n)
    return r


def disj(nodes):
    r = FALSE
    for n in nodes:
        r = bor(r, n)
    return r


def implies(a, b):
    return bor(bnot(a), b)


def uf(name, *args):
    return mk('uf', (name,) + tuple(args))


def powr(a, b):
    """a**b.  Integer constant exponents are unrolled; anything else is uninterpreted."""
    if isc(b):
        e = cv(b)
        if e.denominator == 1 and abs(e) <= 16:
            k = int(e)
            if k < 0:
                return div(ONE, powr(a, const(-k)))
            r = ONE
            for _ in range(k):
                r = mul(r, a)
            return r
        if isc(a) and cv(a) > 0:
            return const(float(cv(a)) ** float(e))
    return uf('pow', a, b)


# ---------------------------------------------------------------------------------------
_decider = [None]     # installed by pathexec


class Sym:
    __slots__ = ('n',)

    def __init__(s, n):
        s.n = n

    def _bin(s, o, f, rev=False):
        if isinstance(o, _ND) and o.ndim > 0:
            return NotImplemented
        try:
            on = lift(o)
        except TypeError:
            return NotImplemented
        return Sym(f(on, s.n) if rev else f(s.n, on))

    def __add__(s, o): return s._bin(o, add)
    def __radd__(s, o): return s._bin(o, add, True)
    def __sub__(s, o): return s._bin(o, sub)
    def __rsub__(s, o): return s._bin(o, sub, True)
    def __mul__(s, o): return s._bin(o, mul)
    def __rmul__(s, o): return s._bin(o, mul, True)
    def __truediv__(s, o): return s._bin(o, div)
    def __rtruediv__(s, o): return s._bin(o, div, True)
    def __pow__(s, o): return s._bin(o, powr)
    def __rpow__(s, o): return s._bin(o, powr, True)
    def __neg__(s): return Sym(neg(s.n))
    def __pos__(s): return s

    def __abs__(s):
        if isc(s.n):
            return Sym(const(abs(cv(s.n))))
        return Sym(ite(cmp('<', s.n, ZERO), neg(s.n), s.n))

    def _cmp(s, o, op, rev=False, negate=False):
        if isinstance(o, _ND) and o.ndim > 0:
            return NotImplemented
        try:
            on = lift(o)
        except TypeError:
            return NotImplemented
        r = cmp(op, on, s.n) if rev else cmp(op, s.n, on)
        return SymB(bnot(r) if negate else r)

    def __lt__(s, o): return s._cmp(o, '<')
    def __le__(s, o): return s._cmp(o, '<=')
    def __gt__(s, o): return s._cmp(o, '<', rev=True)
    def __ge__(s, o): return s._cmp(o, '<=', rev=True)
    def __eq__(s, o): return s._cmp(o, '=')
    def __ne__(s, o): return s._cmp(o, '=', negate=True)
    __hash__ = None

    def sin(s): return Sym(_ufc('sin', s.n))
    def cos(s): return Sym(_ufc('cos', s.n))
    def exp(s): return Sym(_ufc('exp', s.n))
    def log(s): return Sym(_ufc('log', s.n))
    def sqrt(s): return Sym(powr(s.n, const(Fraction(1, 2))))
    def conjugate(s): return s

    def __float__(s):
        if isc(s.n):
            return float(cv(s.n))
        raise Concretize('float() of a symbolic value')

    def __int__(s):
        if isc(s.n) and cv(s.n).denominator == 1:
            return int(cv(s.n))
        raise Concretize('int() of a symbolic value')

    def __bool__(s):
        return bool(SymB(bnot(cmp('=', s.n, ZERO))))

    def __repr__(s):
        if isc(s.n):
            return 'Sym(%s)' % (cv(s.n),)
        if s.n.op == 'var':
            return 'Sym(%s)' % s.n.args[0]
        return 'Sym#%d' % s.n.id

    def __deepcopy__(s, memo): return s
    def __copy__(s): return s
    def __reduce__(s): raise TypeError('Sym is not picklable')


def linform(n, memo=None):
    """{var name: coef, '': const} if the node is an affine expression of variables, else None"""
    if memo is None:
        memo = {}
    for x in topo([n]):
        op = x.op
        if op == 'const':
            r = {'': cv(x)}
        elif op == 'var':
            r = {x.args[0]: Fraction(1), '': Fraction(0)}
        elif op == 'neg':
            a = memo[x.args[0].id]
            r = None if a is None else {k: -v for k, v in a.items()}
        elif op == '+':
            a, b = memo[x.args[0].id], memo[x.args[1].id]
            if a is None or b is None:
                r = None
            else:
                r = dict(a)
                for k, v in b.items():
                    r[k] = r.get(k, Fraction(0)) + v
        elif op == '*':
            a, b = memo[x.args[0].id], memo[x.args[1].id]
            if a is None or b is None:
                r = None
            elif all(k == '' for k in a if a[k] != 0):
                r = {k: v * a.get('', Fraction(0)) for k, v in b.items()}
            elif all(k == '' for k in b if b[k] != 0):
                r = {k: v * b.get('', Fraction(0)) for k, v in a.items()}
            else:
                r = None
        else:
            r = None
        memo[x.id] = r
    return memo[n.id]


def canon_linear(n):
    """canonical node for an affine argument (so that syntactically different but equal affine
    arguments of an uninterpreted function share one application node); other nodes unchanged"""
    lf = linform(n)
    if lf is None:
        return n
    r = const(lf.get('', Fraction(0)))
    for k in sorted(k for k in lf if k != '' and lf[k] != 0):
        r = add(r, mul(const(lf[k]), var(k)))
    return r


def _ufc(name, a):
    if isc(a):
        return const(getattr(math, name)(float(cv(a))))
    return uf(name, canon_linear(a))


class SymB:
    __slots__ = ('n',)

    def __init__(s, n):
        s.n = n

    def __bool__(s):
        if s.n.op == 'bconst':
            return s.n.args[0]
        d = _decider[0]
        if d is None:
            raise Concretize('bool() of a symbolic condition outside a path executor')
        return d(s.n)

    def _num(s):
        return Sym(ite(s.n, ONE, ZERO))

    def __mul__(s, o):
        if isinstance(o, _ND) and o.ndim > 0:
            return NotImplemented
        if isinstance(o, SymB):
            return SymB(band(s.n, o.n))._num()
        return Sym(ite(s.n, lift(o), ZERO))
    __rmul__ = __mul__

    def __add__(s, o):
        if isinstance(o, _ND) and o.ndim > 0:
            return NotImplemented
        return s._num() + o
    __radd__ = __add__

    def __sub__(s, o): return s._num() - o
    def __rsub__(s, o): return o - s._num()
    def __neg__(s): return -s._num()
    def __truediv__(s, o): return s._num() / o
    def __rtruediv__(s, o): return o / s._num()

    @staticmethod
    def _b(o):
        if isinstance(o, SymB):
            return o.n
        if isinstance(o, Sym):
            return bnot(cmp('=', o.n, ZERO))
        return bconst(bool(o))

    def __and__(s, o): return SymB(band(s.n, SymB._b(o)))
    __rand__ = __and__
    def __or__(s, o): return SymB(bor(s.n, SymB._b(o)))
    __ror__ = __or__
    def __invert__(s): return SymB(bnot(s.n))
    def __eq__(s, o): return SymB(bnot(mk('xor', (s.n, SymB._b(o)), 'Bool')))
    __hash__ = None

    def __lt__(s, o): return s._num() < o
    def __le__(s, o): return s._num() <= o
    def __gt__(s, o): return s._num() > o
    def __ge__(s, o): return s._num() >= o

    def __repr__(s):
        if s.n.op == 'bconst':
            return 'SymB(%s)' % s.n.args[0]
        return 'SymB#%d' % s.n.id

    def __deepcopy__(s, memo): return s
    def __copy__(s): return s


def S(name):
    return Sym(var(name))


def Q(x):
    return Sym(const(x))


def tosym(x):
    if isinstance(x, (Sym, SymB)):
        return x
    return Sym(lift(x))


def is_concrete(x):
    if isinstance(x, Sym):
        return isc(x.n)
    if isinstance(x, SymB):
        return x.n.op == 'bconst'
    return True


def smax(a, b):
    a = tosym(a); b = tosym(b)
    if isinstance(a, SymB): a = a._num()
    if isinstance(b, SymB): b = b._num()
    return Sym(ite(cmp('<', a.n, b.n), b.n, a.n))


def smin(a, b):
    a = tosym(a); b = tosym(b)
    if isinstance(a, SymB): a = a._num()
    if isinstance(b, SymB): b = b._num()
    return Sym(ite(cmp('<', b.n, a.n), b.n, a.n))


def ssign(a):
    a = tosym(a)
    return Sym(ite(cmp('<', ZERO, a.n), ONE, ite(cmp('<', a.n, ZERO), const(-1), ZERO)))


# ---------------------------------------------------------------------------------------
# traversal helpers

def topo(roots):
    order = []
    seen = set()
    stack = [(r, False) for r in roots]
    while stack:
        n, done = stack.pop()
        if done:
            order.append(n)
            continue
        if n.id in seen:
            continue
        seen.add(n.id)
        stack.append((n, True))
        for a in n.args:
            if isinstance(a, Node) and a.id not in seen:
                stack.append((a, False))
    return order


def free_vars(roots):
    return {n.args[0] for n in topo(roots) if n.op == 'var'}


def divisors(roots):
    """denominator nodes of every division reachable from roots"""
    return [n.args[1] for n in topo(roots) if n.op == '/']


def size(roots):
    return len(topo(roots))


def substitute(roots, mapping):
    """mapping: var name -> Node.  Returns list of rebuilt roots."""
    memo = {}
    for n in topo(roots):
        if n.op == 'var':
            memo[n.id] = mapping.get(n.args[0], n)
        elif n.op in ('const', 'bconst'):
            memo[n.id] = n
        else:
            a = [memo[x.id] if isinstance(x, Node) else x for x in n.args]
            memo[n.id] = _rebuild(n.op, a, n.sort)
    return [memo[r.id] for r in roots]


def _rebuild(op, a, sort):
    if op == '+': return add(a[0], a[1])
    if op == '*': return mul(a[0], a[1])
    if op == '/':
        old = RECORD_DIVS[0]; RECORD_DIVS[0] = False
        try:
            return div(a[0], a[1])
        finally:
            RECORD_DIVS[0] = old
    if op == 'neg': return neg(a[0])
    if op == 'ite': return ite(a[0], a[1], a[2])
    if op in ('<', '<=', '='): return cmp(op, a[0], a[1])
    if op == 'not': return bnot(a[0])
    if op == 'and': return band(a[0], a[1])
    if op == 'or': return bor(a[0], a[1])
    return mk(op, tuple(a), sort)


# ---------------------------------------------------------------------------------------
# SMT-LIB emission

def fmtq(q):
    q = Fraction(q)
    s = '%d.0' % abs(q.numerator) if q.denominator == 1 else '(/ %d.0 %d.0)' % (abs(q.numerator), q.denominator)
    return '(- %s)' % s if q < 0 else s


ABSTRACT_UF = [True]
UF_ARITY = {'sin': 1, 'cos': 1, 'exp': 1, 'log': 1, 'pow': 2}


def emit(roots):
    """SMT-LIB text defining every node reachable from roots.
    returns (decl_lines, def_lines, name_of_node_id, set_of_ufs, var_names)"""
    decls = []
    defs = []
    name = {}
    ufs = set()
    vnames = []
    for n in topo(roots):
        op = n.op
        if op == 'const':
            name[n.id] = fmtq(cv(n)); continue
        if op == 'bconst':
            name[n.id] = 'true' if n.args[0] else 'false'; continue
        if op == 'var':
            decls.append('(declare-fun %s () %s)' % (n.args[0], n.sort))
            name[n.id] = n.args[0]; vnames.append(n.args[0]); continue
        a = [name[x.id] if isinstance(x, Node) else x for x in n.args]
        if op == 'neg':
            body = '(- %s)' % a[0]
        elif op == 'uf':
            if ABSTRACT_UF[0]:
                # every distinct application becomes a fresh real (sound for unsat; nlsat stays applicable;
                # a model that breaks functional consistency cannot survive the concrete replay)
                nm = 'uf%d_%s' % (n.id, a[0])
                decls.append('(declare-fun %s () Real)' % nm)
                name[n.id] = nm
                continue
            ufs.add((a[0], len(a) - 1))
            body = '(uf_%s %s)' % (a[0], ' '.join(a[1:]))
        else:
            body = '(%s %s)' % (op, ' '.join(a))
        nm = 't%d' % n.id
        defs.append('(define-fun %s () %s %s)' % (nm, n.sort, body))
        name[n.id] = nm
    for f, k in sorted(ufs):
        decls.insert(0, '(declare-fun uf_%s (%s) Real)' % (f, ' '.join(['Real'] * k)))
    return decls, defs, name, ufs, vnames


def evalf(roots, env):
    """concrete float evaluation of nodes (translator validation / pre-screening of models)"""
    memo = {}
    for n in topo(roots):
        op = n.op
        a = n.args
        try:
            if op == 'const': r = float(cv(n))
            elif op == 'bconst': r = a[0]
            elif op == 'var': r = env[a[0]]
            elif op == '+': r = memo[a[0].id] + memo[a[1].id]
            elif op == '*': r = memo[a[0].id] * memo[a[1].id]
            elif op == '/':
                d = memo[a[1].id]
                r = memo[a[0].id] / d if d != 0 else math.nan
            elif op == 'neg': r = -memo[a[0].id]
            elif op == 'ite': r = memo[a[1].id] if memo[a[0].id] else memo[a[2].id]
            elif op == '<': r = memo[a[0].id] < memo[a[1].id]
            elif op == '<=': r = memo[a[0].id] <= memo[a[1].id]
            elif op == '=': r = memo[a[0].id] == memo[a[1].id]
            elif op == 'not': r = not memo[a[0].id]
            elif op == 'and': r = memo[a[0].id] and memo[a[1].id]
            elif op == 'or': r = memo[a[0].id] or memo[a[1].id]
            elif op == 'xor': r = bool(memo[a[0].id]) != bool(memo[a[1].id])
            elif op == 'uf':
                if a[0] == 'pow':
                    r = memo[a[1].id] ** memo[a[2].id]
                elif a[0] == 'gauss':
                    r = math.exp(-memo[a[1].id] ** 2)
                else:
                    r = getattr(math, a[0])(memo[a[1].id])
            else:
                raise ValueError(op)
        except (OverflowError, ValueError, ZeroDivisionError):
            r = math.nan
        memo[n.id] = r
    return [memo[r.id] for r in roots]
