"""NumPy/SciPy environment stubs that let the *real* pyfvtool functions run on symbolic reals.

Installed by replacing module globals of the imported ``pyfvtool.*`` modules (no source hooks):
  np          -> shim delegating to real NumPy, but float arrays are object arrays of Sym
  csr_array   -> SymCSR (dict-of-keys, duplicates summed, like scipy's COO->CSR conversion)
  TrackedArray-> SymTracked = (SymMixin, real TrackedArray)  (in cell, boundary, pdesolver)
  spsolve     -> whatever the harness sets (default: raises)
"""
import sys
import types
import contextlib
import numpy as _np
from . import symreal as sr
from .symreal import Sym, SymB, Q, tosym

_vsym = _np.frompyfunc(tosym, 1, 1)


def _base(x):
    if isinstance(x, _np.ndarray):
        return x.view(_np.ndarray)
    if isinstance(x, (list, tuple)):
        return type(x)(_base(y) for y in x)
    return x


def symarray(a):
    """object ndarray (SymArray view) whose entries are all Sym/SymB"""
    a = _np.asarray(a)
    if a.dtype != object:
        a = a.astype(object)
    out = _np.empty(a.shape, dtype=object)
    if a.size:
        flat_in = a.reshape(-1)
        flat_out = out.reshape(-1)
        for i in range(flat_in.size):
            flat_out[i] = tosym(flat_in[i])
    return out.view(SymArray)


def _b(x):
    if isinstance(x, SymB):
        return x
    if isinstance(x, Sym):
        return SymB(sr.bnot(sr.cmp('=', x.n, sr.ZERO)))
    return SymB(sr.bconst(bool(x)))


_SPECIAL = {
    _np.greater: lambda a, b: tosym(a) > b, _np.less: lambda a, b: tosym(a) < b,
    _np.greater_equal: lambda a, b: tosym(a) >= b, _np.less_equal: lambda a, b: tosym(a) <= b,
    _np.equal: lambda a, b: tosym(a) == b, _np.not_equal: lambda a, b: tosym(a) != b,
    _np.maximum: sr.smax, _np.minimum: sr.smin, _np.sign: sr.ssign,
    _np.logical_and: lambda a, b: _b(a) & _b(b), _np.logical_or: lambda a, b: _b(a) | _b(b),
    _np.logical_not: lambda a: ~_b(a),
    _np.absolute: lambda a: abs(tosym(a)) if not isinstance(a, SymB) else a._num(),
}
_SPECIALV = {k: _np.frompyfunc(f, f.__code__.co_argcount, 1) for k, f in _SPECIAL.items()}


def _isobj(x):
    return (isinstance(x, _np.ndarray) and x.dtype == object) or isinstance(x, (Sym, SymB))


def _wrap(r):
    if isinstance(r, _np.ndarray) and r.dtype == object and not isinstance(r, SymMixin):
        return r.view(SymArray)
    if isinstance(r, tuple):
        return tuple(_wrap(x) for x in r)
    if isinstance(r, list):
        return [_wrap(x) for x in r]
    return r


class SymMixin:
    def __array_ufunc__(self, ufunc, method, *inputs, **kw):
        isobj = any(_isobj(x) for x in inputs)
        out = kw.get('out')
        if isobj and ufunc in _SPECIALV and method == '__call__' and not out:
            r = _SPECIALV[ufunc](*[_base(x) for x in inputs])
            if isinstance(r, _np.ndarray):
                return r.view(SymArray)
            return r
        if isobj and ufunc in (_np.maximum, _np.minimum) and method == 'reduce':
            a = _base(inputs[0])
            if kw.get('axis') not in (None, 0) and a.ndim != 1:
                raise NotImplementedError('axis reduce of max/min on symbolic arrays')
            r = None
            for x in a.ravel():
                r = x if r is None else _SPECIAL[ufunc](r, x)
            return r
        if out is not None:
            kw['out'] = tuple(_base(o) for o in out)
        r = getattr(ufunc, method)(*[_base(x) for x in inputs], **kw)
        if out is not None:
            # in-place forms (`a += b`, `np.add(a, b, out=a)`) return the very object passed as `out`, as NumPy does: code may test identity
            return out[0] if len(out) == 1 else out
        if isinstance(r, _np.ndarray) and not isinstance(r, SymMixin):
            if r.dtype == object:
                r = r.view(type(self) if isinstance(self, SymArray) else SymArray)
            elif not isinstance(self, SymArray):
                # tracked float array: keep numpy's normal subclass propagation
                r = r.view(type(self))
        return r

    def __array_function__(self, func, types_, args, kwargs):
        impl = getattr(func, '_implementation', None)
        if impl is None:
            r = func(*_base(args), **{k: _base(v) for k, v in kwargs.items()})
        else:
            r = impl(*_base(args), **{k: _base(v) for k, v in kwargs.items()})
        return _wrap(r)

    def __setitem__(self, key, value):
        if isinstance(key, _np.ndarray) and key.dtype == object and key.size \
                and isinstance(_base(key).flat[0], SymB):
            kb = _base(key)
            if all(k.n.op == 'bconst' for k in kb.flat):
                key = _np.array([k.n.args[0] for k in kb.flat], dtype=bool).reshape(kb.shape)
            else:
                cur = _base(self)
                val = _np.broadcast_to(_base(_np.asarray(value, dtype=object)), cur.shape)
                new = _np.empty(cur.shape, dtype=object)
                for idx in _np.ndindex(cur.shape):
                    new[idx] = Sym(sr.ite(kb[idx].n, sr.lift(val[idx]), sr.lift(cur[idx])))
                return super().__setitem__(Ellipsis, new)
        if self.dtype == object:
            if isinstance(value, _np.ndarray):
                if value.dtype != object:
                    value = _vsym(value) if value.size else value.astype(object)
                else:
                    value = _base(value)
            elif isinstance(value, (list, tuple)):
                value = _base(_np.asarray(symarray(_np.array(value, dtype=object))))
            elif not isinstance(value, (Sym, SymB)):
                value = tosym(value)
        return super().__setitem__(key, value)

    def item(self, *a):
        return _base(self).item(*a)


class _Meta(type(_np.ndarray)):
    def __instancecheck__(cls, inst):
        if cls is SymArray:
            return isinstance(inst, _np.ndarray)
        return type.__instancecheck__(cls, inst)


class SymArray(SymMixin, _np.ndarray, metaclass=_Meta):
    pass


# ---- shim module --------------------------------------------------------------------------
class NP(types.ModuleType):
    """stands in for the name `np` inside pyfvtool modules"""

    def __init__(s):
        super().__init__('np_shim')

    def __getattr__(s, k):
        return getattr(_np, k)

    ndarray = SymArray

    @staticmethod
    def _floaty(dtype):
        return dtype in (None, float, _np.float64, 'float', 'float64', object)

    def zeros(s, shape, dtype=None, **kw):
        if s._floaty(dtype):
            a = _np.empty(shape, dtype=object); a.fill(Q(0)); return a.view(SymArray)
        return _np.zeros(shape, dtype=dtype, **kw)

    def ones(s, shape, dtype=None, **kw):
        if s._floaty(dtype):
            a = _np.empty(shape, dtype=object); a.fill(Q(1)); return a.view(SymArray)
        return _np.ones(shape, dtype=dtype, **kw)

    def empty(s, shape, dtype=None, **kw):
        return s.zeros(shape, dtype=dtype)

    def array(s, obj, dtype=None, **kw):
        if isinstance(obj, (Sym, SymB)):
            a = _np.empty((), dtype=object); a[()] = obj; return a.view(SymArray)
        a = _np.array(_base(obj) if isinstance(obj, _np.ndarray) else obj, dtype=dtype, **kw)
        if a.dtype == _np.float64 or a.dtype == object:
            return symarray(a)
        return a

    def asarray(s, obj, dtype=None, **kw):
        if isinstance(obj, _np.ndarray) and dtype is None:
            return obj
        return s.array(obj, dtype=dtype)

    def copy(s, a, **kw):
        return _np.array(a, copy=True, subok=True)

    def isscalar(s, x):
        return isinstance(x, (Sym, SymB)) or _np.isscalar(x)

    def _red(s, a, f, real):
        a = _np.asarray(a)
        if a.dtype == object:
            r = None
            for x in _base(a).ravel():
                r = x if r is None else f(r, x)
            return r
        return real(a)

    def max(s, a, **kw):
        return s._red(a, sr.smax, _np.max)

    def min(s, a, **kw):
        return s._red(a, sr.smin, _np.min)

    def all(s, a, **kw):
        a = _np.asarray(a)
        if a.dtype == object:
            r = SymB(sr.TRUE)
            for x in _base(a).ravel():
                r = r & _b(x)
            return r
        return _np.all(a, **kw)


class SymCSR:
    """stand-in for scipy.sparse.csr_array over symbolic entries (dict of keys; duplicate
    (i,j) entries are summed, as scipy does when converting COO input to CSR)"""
    ndim = 2

    def __init__(s, arg, shape=None):
        s.shape = tuple(int(x) for x in shape)
        s.d = {}
        s.data_ref = None
        if arg is not None:
            if len(arg) == 3:
                # csr_array((data, indices, indptr)): scipy's default copy=False keeps the caller's `data` array as the matrix storage;
                # the reference is kept so that aliasing checks (C15) can see it.  Expanded to (row, col) pairs for the dict form.
                data, indices, indptr = arg
                if isinstance(data, _np.ndarray):
                    s.data_ref = data
                indices = _np.asarray(indices); indptr = _np.asarray(indptr)
                if indptr.size != s.shape[0] + 1:
                    raise ValueError('index pointer size %d should be %d' % (indptr.size, s.shape[0] + 1))
                if int(indptr[0]) != 0 or _np.any(_np.diff(indptr.astype(int)) < 0) or int(indptr[-1]) > indices.size:
                    raise ValueError('index pointer array is not consistent with the indices')
                ii = _np.repeat(_np.arange(s.shape[0]), _np.diff(indptr.astype(int)))
                jj = indices.ravel()[:int(indptr[-1])]
                data = _base(_np.asarray(data)).ravel()[:int(indptr[-1])]
                arg = (data, (ii, jj))
            data, (ii, jj) = arg
            data = _base(_np.asarray(data))
            ii = _np.asarray(ii)
            jj = _np.asarray(jj)
            if not (data.size == ii.size == jj.size):
                raise ValueError('row, column, and data array must all be the same length')
            for v, i, j in zip(data.ravel(), ii.ravel(), jj.ravel()):
                k = (int(i), int(j))
                if not (0 <= k[0] < s.shape[0] and 0 <= k[1] < s.shape[1]):
                    raise ValueError('index exceeds matrix dimensions')
                v = tosym(v)
                s.d[k] = s.d[k] + v if k in s.d else v

    def copy(s):
        r = SymCSR(None, s.shape)
        r.d = dict(s.d)
        return r

    def _chk(s, o):
        if not isinstance(o, SymCSR):
            raise TypeError('SymCSR combined with %r' % type(o))
        if o.shape != s.shape:
            raise ValueError('inconsistent shapes')

    def __add__(s, o):
        s._chk(o)
        r = s.copy()
        for k, v in o.d.items():
            r.d[k] = r.d[k] + v if k in r.d else v
        return r

    def __iadd__(s, o):
        # scipy: `M += T` rebinds M to a new array (csr __iadd__ is not in place)
        return s.__add__(o)

    def __neg__(s):
        r = SymCSR(None, s.shape)
        r.d = {k: -v for k, v in s.d.items()}
        return r

    def __pos__(s):
        return s.copy()

    def __sub__(s, o):
        s._chk(o)
        return s + (-o)

    def __mul__(s, c):
        if isinstance(c, (SymCSR, _np.ndarray)):
            raise TypeError('only scalar * SymCSR supported')
        r = SymCSR(None, s.shape)
        r.d = {k: v * c for k, v in s.d.items()}
        return r
    __rmul__ = __mul__

    def __truediv__(s, c):
        r = SymCSR(None, s.shape)
        r.d = {k: v / c for k, v in s.d.items()}
        return r

    def __matmul__(s, x):
        x = _base(_np.asarray(x))
        out = [Q(0)] * s.shape[0]
        for (i, j), v in s.d.items():
            out[i] = out[i] + v * x[j]
        return symarray(_np.array(out, dtype=object))

    dot = __matmul__

    def get(s, i, j):
        return s.d.get((i, j), Q(0))

    def rows(s):
        rows = {}
        for (i, j), v in s.d.items():
            rows.setdefault(i, []).append((j, v))
        return rows

    def toarray(s):
        a = _np.empty(s.shape, dtype=object)
        a.fill(Q(0))
        for (i, j), v in s.d.items():
            a[i, j] = v
        return a.view(SymArray)


# ---- install / uninstall --------------------------------------------------------------------
_saved = []
_state = {'installed': False, 'SymTracked': None}


def _no_solver(*a, **k):
    raise RuntimeError('spsolve reached in symbolic mode without a solver stub')


def install(spsolve=None):
    """replace module globals of pyfvtool.* ; returns the shim"""
    import pyfvtool
    import pyfvtool.utilities
    if _state['installed']:
        uninstall()
    shim = NP()
    TA = pyfvtool.utilities.TrackedArray
    if _state['SymTracked'] is None or _state['SymTracked'].__mro__[2] is not TA:
        class SymTracked(SymMixin, TA):
            pass
        _state['SymTracked'] = SymTracked
    ST = _state['SymTracked']
    mods = [m for n, m in list(sys.modules.items())
            if (n == 'pyfvtool' or n.startswith('pyfvtool.')) and hasattr(m, '__dict__')]
    for m in mods:
        d = m.__dict__
        if d.get('np') is _np:
            _saved.append((m, 'np', _np)); m.np = shim
        if 'csr_array' in d and d['csr_array'] is not SymCSR:
            _saved.append((m, 'csr_array', d['csr_array'])); m.csr_array = SymCSR
        if 'spsolve' in d:
            _saved.append((m, 'spsolve', d['spsolve'])); m.spsolve = spsolve or _no_solver
        if d.get('TrackedArray') is TA and m is not pyfvtool.utilities:
            _saved.append((m, 'TrackedArray', TA)); m.TrackedArray = ST
    _state['installed'] = True
    return shim


def uninstall():
    while _saved:
        m, k, v = _saved.pop()
        setattr(m, k, v)
    _state['installed'] = False


@contextlib.contextmanager
def symbolic(spsolve=None):
    install(spsolve)
    try:
        yield
    finally:
        uninstall()


def set_spsolve(f):
    import pyfvtool.pdesolver as ps
    ps.spsolve = f
