"""SMT back end: SMT-LIB2 text to z3 / z3-new / cvc5 binaries, one fresh process per query
(never push/pop: z3's incremental core does not run nlsat).  unsat = holds within the bound."""
import os
import re
import shutil
import subprocess
import tempfile
import time
from fractions import Fraction
from . import symreal as sr

Z3 = shutil.which('z3') or '/usr/bin/z3'
Z3NEW = shutil.which('z3-new')
CVC5 = shutil.which('cvc5')

STATS = {'queries': 0, 'time': 0.0, 'by_solver': {}, 'by_result': {}}


def _stat(solver, res, dt):
    STATS['queries'] += 1
    STATS['time'] += dt
    b = STATS['by_solver'].setdefault(solver, [0, 0.0])
    b[0] += 1
    b[1] += dt
    STATS['by_result'][res] = STATS['by_result'].get(res, 0) + 1


def reset_stats():
    STATS.update({'queries': 0, 'time': 0.0, 'by_solver': {}, 'by_result': {}})


def smtlib(asserts, want_model=False, logic=None, decimal=True, extra=()):
    decls, defs, name, ufs, vnames = sr.emit(asserts)
    lines = []
    if want_model:
        lines.append('(set-option :produce-models true)')
        if decimal:
            lines.append('(set-option :pp.decimal true)')
            lines.append('(set-option :pp.decimal_precision 400)')
    if logic:
        lines.append('(set-logic %s)' % logic)
    lines += decls + defs + list(extra)
    lines += ['(assert %s)' % name[a.id] for a in asserts]
    lines.append('(check-sat)')
    if want_model and vnames:
        lines.append('(get-value (%s))' % ' '.join(vnames))
    return '\n'.join(lines) + '\n', ufs, vnames


_num = re.compile(r'^-?\d+(\.\d*)?\??$')


def _parse_val(tok):
    """tok: token list for an SMT-LIB numeral expression -> (Fraction|float, rest)"""
    t = tok.pop(0)
    if t == '(':
        op = tok.pop(0)
        args = []
        while tok[0] != ')':
            args.append(_parse_val(tok))
        tok.pop(0)
        if op == '-':
            return -args[0] if len(args) == 1 else args[0] - args[1]
        if op == '/':
            return Fraction(args[0]) / Fraction(args[1]) if args[1] != 0 else Fraction(0)
        if op == '+':
            return sum(args)
        if op == '*':
            r = 1
            for a in args:
                r = r * a
            return r
        raise ValueError('model value op %s' % op)
    if t.endswith('?'):
        return Fraction(t[:-1])
    if t in ('true', 'false'):
        return t == 'true'
    return Fraction(t)


def parse_model(out, vnames):
    """parse `(get-value ...)` answer: ((x 1.0) (y (- (/ 1.0 3.0))) ...)"""
    i = out.find('((')
    if i < 0:
        return None
    toks = re.findall(r'\(|\)|[^\s()]+', out[i:])
    env = {}
    toks.pop(0)
    try:
        while toks and toks[0] == '(':
            toks.pop(0)
            nm = toks.pop(0)
            v = _parse_val(toks)
            toks.pop(0)
            env[nm] = v
    except (ValueError, IndexError, ZeroDivisionError):
        return None
    return env


def run_solver(text, solver='z3', timeout=30):
    t = time.time()
    if solver == 'z3':
        cmd = [Z3, '-in', '-T:%d' % max(1, int(timeout))]
        inp = text
    elif solver == 'z3new':
        cmd = [Z3NEW, '-in', '-T:%d' % max(1, int(timeout))]
        inp = text
    elif solver == 'cvc5':
        fd, path = tempfile.mkstemp(suffix='.smt2', prefix='pv_')
        with os.fdopen(fd, 'w') as f:
            f.write(text)
        cmd = [CVC5, '--tlimit=%d' % int(timeout * 1000), path]
        inp = None
    else:
        raise ValueError(solver)
    try:
        p = subprocess.run(cmd, input=inp, capture_output=True, text=True, timeout=timeout + 15)
        out = (p.stdout + p.stderr).strip()
    except subprocess.TimeoutExpired:
        out = 'timeout'
    finally:
        if solver == 'cvc5':
            try:
                os.unlink(path)
            except OSError:
                pass
    dt = time.time() - t
    first = out.split('\n', 1)[0].strip() if out else ''
    if '(error' in out and first not in ('sat', 'unsat'):
        res = 'error'
    elif '(error' in out and 'model is not available' not in out and first == 'unsat':
        # an error line next to "unsat" (other than the expected get-value complaint) is inconclusive
        errs = [l for l in out.split('\n') if '(error' in l]
        res = 'unsat' if all('model is not available' in e or 'get-value' in e for e in errs) else 'error'
    elif first in ('sat', 'unsat'):
        res = first
    elif first == 'unknown':
        res = 'unknown'
    else:
        res = 'timeout' if ('timeout' in out or out == '') else 'unknown'
    _stat(solver, res, dt)
    return res, out, dt


def check(asserts, timeout=30, want_model=False, solvers=('z3',), extra=()):
    """asserts: list of Bool nodes, all asserted.  Returns dict(res, model, time, solver, size)."""
    asserts = [a for a in asserts if a is not sr.TRUE]
    if any(a is sr.FALSE for a in asserts):
        return {'res': 'unsat', 'model': None, 'time': 0.0, 'solver': 'fold', 'size': 0}
    if not asserts:
        return {'res': 'sat', 'model': {}, 'time': 0.0, 'solver': 'fold', 'size': 0}
    total = 0.0
    last = None
    for sv in solvers:
        if sv == 'z3new' and not Z3NEW:
            continue
        if sv == 'cvc5' and not CVC5:
            continue
        text, ufs, vnames = smtlib(asserts, want_model=want_model,
                                   logic=('QF_UFNRA' if ufs_needed(asserts) else 'QF_NRA') if sv == 'cvc5' else None,
                                   decimal=(sv != 'cvc5'), extra=extra)
        res, out, dt = run_solver(text, sv, timeout)
        total += dt
        last = {'res': res, 'model': None, 'time': total, 'solver': sv, 'size': len(text)}
        if res == 'sat' and want_model:
            last['model'] = parse_model(out, vnames)
            if last['model'] is None and vnames:
                last['res'] = 'unknown'
                continue
        if res in ('sat', 'unsat'):
            return last
    return last


def ufs_needed(asserts):
    return (not sr.ABSTRACT_UF[0]) and any(n.op == 'uf' for n in sr.topo(asserts))


def model_to_float(env):
    return {k: (float(v) if not isinstance(v, bool) else v) for k, v in env.items()}


def check_many(assert_lists, timeout_each=5, solver='z3'):
    """several independent queries.  First ONE solver process for all of them, separated by (reset) (never push/pop: the
    incremental core does not run nlsat), under a HARD process time limit; queries left unanswered when the process is
    killed (z3 4.8.12 can hang on its own soft timeout inside a script) are then asked one process each with -T.
    Returns a list of 'unsat' | 'sat' | 'unknown' | 'error'."""
    n = len(assert_lists)
    texts = []
    pre_res = [None] * n
    for k, asserts in enumerate(assert_lists):
        asserts = [a for a in asserts if a is not sr.TRUE]
        if any(a is sr.FALSE for a in asserts):
            pre_res[k] = 'unsat'; texts.append(None); continue
        if not asserts:
            pre_res[k] = 'sat'; texts.append(None); continue
        decls, defs, name, ufs, vnames = sr.emit(asserts)
        lines = decls + defs + ['(assert %s)' % name[a.id] for a in asserts] + ['(check-sat)']
        texts.append('\n'.join(lines) + '\n')
    todo = [k for k in range(n) if pre_res[k] is None]
    res = list(pre_res)
    if todo:
        script = ''.join(texts[k] + '(echo "done-%d")\n(reset)\n' % k for k in todo)
        hard = int(max(15, min(120, 0.5 * len(todo) + 2 * timeout_each)))
        t = time.time()
        try:
            p = subprocess.run([Z3 if solver == 'z3' else Z3NEW, '-in', '-T:%d' % hard], input=script, capture_output=True,
                               text=True, timeout=hard + 15)
            out = p.stdout
        except subprocess.TimeoutExpired as e:
            out = e.stdout.decode() if isinstance(e.stdout, bytes) else (e.stdout or '')
        dt = time.time() - t
        last = None
        for line in out.split('\n'):
            line = line.strip().strip('"')
            if line in ('sat', 'unsat', 'unknown'):
                last = line
            elif line.startswith('(error'):
                last = 'error'
            elif line.startswith('done-'):
                k = int(line[5:])
                res[k] = last or 'unknown'
                last = None
        answered = [k for k in todo if res[k] is not None]
        for k in answered:
            _stat(solver + '-script', res[k], dt / max(1, len(answered)))
        for k in todo:
            if res[k] is None or res[k] in ('unknown', 'error'):
                r, _, _ = run_solver(texts[k], solver, timeout_each)
                res[k] = r if r in ('sat', 'unsat') else 'unknown'
    return res
