"""setup_cmd: engine self-test (solvers present, tracing layer agrees with real NumPy/SciPy on a
sample of scenarios incl. the README problem).  Builds nothing, keeps nothing."""
import sys
import numpy as np
from . import core, smt, symreal as sr


def main():
    ok = True
    x = sr.S('x')
    r = smt.check([(x * x < 0).n], timeout=10)
    print('z3 nonlinear unsat probe:', r['res']); ok &= r['res'] == 'unsat'
    r = smt.check([(x * x == 2).n, (x > 0).n], timeout=10, want_model=True)
    print('z3 algebraic model probe:', r['res'], r['model']); ok &= r['res'] == 'sat' and abs(float(r['model']['x']) - 2 ** 0.5) < 1e-9
    if smt.Z3NEW:
        r = smt.check([(x * x < 0).n], timeout=10, solvers=('z3new',))
        print('z3-new probe:', r['res']); ok &= r['res'] == 'unsat'
    from .props import c10
    for g, dims in (('Grid1D', [3]), ('PolarGrid2D', [2, 2]), ('CylindricalGrid3D', [2, 2, 2])):
        out = core.process_scenario({'name': 'selftest/%s' % g, 'fn': 'pv.props.c10:geom', 'params': {'g': g, 'dims': dims},
                                     'validate': 3, 'timeout': 20})
        bad = [x for x in out['results'] if x['status'] != 'unsat']
        print('selftest', g, 'obligations', len(out['results']), 'not-unsat', len(bad), 'validation', out['validation']['compared'],
              'mismatch', len(out['validation']['mismatch']), 'errors', out['errors'][:1])
        ok &= not bad and not out['errors'] and not out['validation']['mismatch'] and out['validation']['compared'] > 0
    print('SELFTEST', 'OK' if ok else 'FAILED')
    return 0 if ok else 2
