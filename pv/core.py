"""Scenario context, obligations, path exploration, discharge + replay, parallel runner.

A *scenario* is a function ``f(ctx, **params)`` written once against ``Ctx`` and executed
  - symbolically  (mode 'sym' : stubs installed, ctx.real() -> Sym, obligations recorded),
  - concretely    (mode 'conc': no stubs at all, ctx.real() -> float from a solver model),
  - at random     (mode 'rand': like 'conc' with seeded random inputs; translator validation).
"""
import json
import math
import os
import random
import sys
import time
import traceback
import zlib
import importlib
from collections import OrderedDict
from fractions import Fraction

import numpy as np

from . import symreal as sr
from . import symnp
from . import smt
from .symreal import Sym, SymB

REL_TOL = 1e-9


class Infeasible(Exception):
    """path whose condition became unsatisfiable (abandoned, not an error)"""


class PathLimit(Exception):
    pass


class Ob:
    __slots__ = ('oid', 'kind', 'lhs', 'rhs', 'goal', 'pre', 'required', 'timeout', 'note',
                 'nodefs', 'cubes', 'axioms', 'fallback_cubes')

    def __init__(s, oid, kind, lhs, rhs, goal, pre, required=True, timeout=None, note='',
                 nodefs=False, cubes=None, axioms=(), fallback_cubes=None):
        s.oid = oid; s.kind = kind; s.lhs = lhs; s.rhs = rhs; s.goal = goal; s.pre = pre
        s.required = required; s.timeout = timeout; s.note = note; s.nodefs = nodefs
        s.cubes = cubes; s.axioms = tuple(axioms)
        s.fallback_cubes = fallback_cubes       # a cover of the domain tried only when the single query comes back unknown


def _fl(x):
    if isinstance(x, (Sym, SymB)):
        raise TypeError('symbolic value in concrete mode')
    if isinstance(x, np.ndarray):
        return float(x.item())
    return float(x)


class Ctx:
    def __init__(self, mode, env=None, seed=0, decisions=None, max_decisions=64):
        self.mode = mode
        self.env = dict(env or {})
        self.rng = random.Random(seed)
        self.pre = []                # sym: Bool nodes ; conc: list of (ok, text)
        self.pre_ok = True
        self.obs = OrderedDict()     # oid -> Ob (sym) | dict (conc)
        self.kinds = {}
        self.notes = []
        self.axioms = []             # Bool nodes: true facts about uninterpreted functions
        self.axiom_texts = []
        # path exploration
        self.forced = list(decisions or [])
        self.decisions = []          # (bool value, was_fork)
        self.max_decisions = max_decisions
        self.functions = set()
        self.stubs = set()
        self.stats = {}

    # ---- inputs -------------------------------------------------------------------------
    @property
    def sym(self):
        return self.mode == 'sym'

    def _sample(self, kind, lo, hi):
        r = self.rng
        if kind == 'pos':
            return r.choice([0.25, 0.5, 1.0, 1.5, 2.0, 3.0]) * (0.5 + r.random())
        if kind == 'nonneg':
            return r.choice([0.0, 0.5, 1.0, 2.0]) * r.random()
        if kind == 'unit':
            return r.random()
        if kind == 'nz':
            v = (0.3 + 2 * r.random()) * r.choice([-1, 1])
            return v
        return r.uniform(-2.0, 2.0)

    def real(self, name, kind='any', lo=None, hi=None):
        """fresh real input.  kind: any | pos | nonneg | nz (non-zero) ; lo/hi inclusive bounds"""
        self.kinds[name] = kind
        if self.mode == 'sym':
            x = sr.S(name)
            if kind == 'pos': self.assume(x > 0)
            elif kind == 'nonneg': self.assume(x >= 0)
            elif kind == 'nz': self.assume(x != 0)
            if lo is not None: self.assume(x >= lo)
            if hi is not None: self.assume(x <= hi)
            return x
        if self.mode == 'rand' and name not in self.env:
            v = self._sample(kind, lo, hi)
            if lo is not None and v < lo: v = lo + abs(v - lo) % max(1e-3, ((hi - lo) if hi is not None else 1.0))
            if hi is not None and v > hi: v = hi - (abs(v - hi) % max(1e-3, ((hi - lo) if lo is not None else 1.0)))
            self.env[name] = v
        if name not in self.env:
            raise KeyError('replay environment lacks input %r' % name)
        return float(self.env[name])

    def arr(self, prefix, shape, kind='any'):
        shape = tuple(int(s) for s in np.atleast_1d(shape))
        a = np.empty(shape, dtype=object)
        for idx in np.ndindex(*shape):
            a[idx] = self.real(prefix + '_' + '_'.join(map(str, idx)) if idx else prefix, kind)
        if self.mode == 'sym':
            return a.view(symnp.SymArray)
        return a.astype(float)

    def faces(self, prefix, n, lo=None, hi=None, lo_strict=False):
        """n+1 strictly increasing face positions; optional inclusive bounds on first / last"""
        if self.mode == 'sym':
            f = [sr.S('%s_%d' % (prefix, i)) for i in range(n + 1)]
            for i in range(n + 1):
                self.kinds['%s_%d' % (prefix, i)] = 'face'
            for i in range(n):
                self.assume(f[i] < f[i + 1])
            if lo is not None:
                self.assume(f[0] > lo if lo_strict else f[0] >= lo)
            if hi is not None:
                self.assume(f[n] <= hi)
            a = np.empty(n + 1, dtype=object)
            a[:] = f
            return a.view(symnp.SymArray)
        names = ['%s_%d' % (prefix, i) for i in range(n + 1)]
        if self.mode == 'rand' and names[0] not in self.env:
            r = self.rng
            a = lo if lo is not None else r.uniform(-1, 1)
            if lo is None or r.random() < 0.6 or lo_strict:
                a = a + r.uniform(0.05, 0.5)
            incs = [r.uniform(0.2, 1.0) for _ in range(n)]
            pts = [a]
            for d in incs:
                pts.append(pts[-1] + d)
            if hi is not None and pts[-1] > hi:
                sc = (hi - pts[0]) * r.uniform(0.5, 1.0) / (pts[-1] - pts[0])
                pts = [pts[0] + (p - pts[0]) * sc for p in pts]
            for nm, v in zip(names, pts):
                self.env[nm] = v
        return np.array([float(self.env[nm]) for nm in names])

    def const(self, x):
        return sr.Q(x) if self.mode == 'sym' else float(x)

    # ---- preconditions -------------------------------------------------------------------
    def assume(self, cond, text=''):
        if self.mode == 'sym':
            n = cond.n if isinstance(cond, SymB) else sr.bconst(bool(cond))
            if n is sr.TRUE:
                return
            self.pre.append(n)
            sr.PC.append(n)
        else:
            ok = bool(cond)
            if not ok:
                self.pre_ok = False
            self.pre.append((ok, text))

    def axiom(self, cond, text):
        """a TRUE fact about an uninterpreted function instance (listed in the evidence)"""
        if self.mode == 'sym':
            n = cond.n if isinstance(cond, SymB) else sr.bconst(bool(cond))
            if n is sr.FALSE:
                raise RuntimeError('axiom instance folds to false: ' + text)
            self.axioms.append(n)
            sr.PC.append(n)
            if text not in self.axiom_texts:
                self.axiom_texts.append(text)
        else:
            if not bool(cond):
                self.notes.append('axiom instance false at this point: ' + text)
                self.pre_ok = False

    # ---- polymorphic helpers -------------------------------------------------------------
    def where(self, c, a, b):
        if isinstance(c, SymB):
            return Sym(sr.ite(c.n, sr.lift(a), sr.lift(b)))
        return a if c else b

    def abs(self, x):
        return abs(x)

    def max(self, *xs):
        r = xs[0]
        for x in xs[1:]:
            r = sr.smax(r, x) if self.mode == 'sym' else max(r, x)
        return r

    def min(self, *xs):
        r = xs[0]
        for x in xs[1:]:
            r = sr.smin(r, x) if self.mode == 'sym' else min(r, x)
        return r

    def sdiv(self, a, b):
        """a/b ; concrete mode: nan instead of ZeroDivisionError (oracle arms not selected)"""
        if self.mode != 'sym':
            try:
                return a / b
            except ZeroDivisionError:
                return math.nan
        return a / b

    def fn(self, name, x):
        if isinstance(x, Sym):
            return getattr(x, name)()
        return getattr(math, name)(x)

    def And(self, *cs):
        if self.mode == 'sym':
            r = sr.TRUE
            for c in cs:
                r = sr.band(r, SymB._b(c))
            return SymB(r)
        return all(bool(c) for c in cs)

    def Or(self, *cs):
        if self.mode == 'sym':
            r = sr.FALSE
            for c in cs:
                r = sr.bor(r, SymB._b(c))
            return SymB(r)
        return any(bool(c) for c in cs)

    def Not(self, c):
        if self.mode == 'sym':
            return SymB(sr.bnot(SymB._b(c)))
        return not bool(c)

    def Implies(self, a, b):
        return self.Or(self.Not(a), b)

    def is_zero_term(self, x):
        """structural: the value is the literal constant 0 (sym) / exactly 0.0 (conc)"""
        if isinstance(x, Sym):
            return sr.isc(x.n) and sr.cv(x.n) == 0
        return float(x) == 0.0

    # ---- obligations ---------------------------------------------------------------------
    def _prenodes(self, pre):
        out = []
        for p in pre:
            out.append(p.n if isinstance(p, SymB) else sr.bconst(bool(p)))
        return out

    def eq(self, oid, lhs, rhs, pre=(), rel=0.0, **kw):
        """obligation lhs == rhs  (rel>0: |lhs-rhs| <= rel*|rhs|, for oracles with float literals)"""
        if oid in self.obs:
            raise KeyError('duplicate obligation id ' + oid)
        if self.mode == 'sym':
            l = sr.lift(lhs); r = sr.lift(rhs)
            if rel:
                d = sr.sub(l, r)
                ad = sr.ite(sr.cmp('<', d, sr.ZERO), sr.neg(d), d)
                ar = sr.ite(sr.cmp('<', r, sr.ZERO), sr.neg(r), r)
                goal = sr.cmp('<=', ad, sr.mul(sr.const(Fraction(rel)), ar))
            else:
                goal = sr.cmp('=', l, r)
            self.obs[oid] = Ob(oid, 'eq', l, r, goal, list(self.pre) + self._prenodes(pre), **kw)
        else:
            l = _fl(lhs); r = _fl(rhs)
            pre_ok = all(bool(p) for p in pre)
            tol = max(REL_TOL, 10 * rel)
            scale = max(1.0, abs(l), abs(r)) if not rel else max(abs(r), 1e-300)
            ok = (abs(l - r) <= tol * scale) if (math.isfinite(l) and math.isfinite(r)) else False
            self.obs[oid] = {'kind': 'eq', 'lhs': l, 'rhs': r, 'ok': ok, 'pre_ok': pre_ok}

    def holds(self, oid, cond, pre=(), margin=None, **kw):
        """obligation: boolean condition.  `margin` = (lhs, rhs, op) numeric form for replay reports"""
        if oid in self.obs:
            raise KeyError('duplicate obligation id ' + oid)
        if self.mode == 'sym':
            goal = cond.n if isinstance(cond, SymB) else sr.bconst(bool(cond))
            self.obs[oid] = Ob(oid, 'bool', None, None, goal, list(self.pre) + self._prenodes(pre), **kw)
        else:
            pre_ok = all(bool(p) for p in pre)
            self.obs[oid] = {'kind': 'bool', 'ok': bool(cond), 'pre_ok': pre_ok,
                             'lhs': None, 'rhs': None}

    def le(self, oid, a, b, pre=(), slack=0.0, **kw):
        if self.mode == 'sym':
            return self.holds(oid, sr.tosym(a) <= b, pre=pre, **kw)
        a_ = _fl(a); b_ = _fl(b)
        pre_ok = all(bool(p) for p in pre)
        ok = a_ <= b_ + REL_TOL * max(1.0, abs(a_), abs(b_))
        self.obs[oid] = {'kind': 'le', 'lhs': a_, 'rhs': b_, 'ok': ok, 'pre_ok': pre_ok}

    def nonzero(self, oid, x, pre=(), **kw):
        if self.mode == 'sym':
            return self.holds(oid, sr.tosym(x) != 0, pre=pre, nodefs=True, **kw)
        v = _fl(x)
        self.obs[oid] = {'kind': 'nz', 'lhs': v, 'rhs': 0.0, 'ok': (v != 0.0 and math.isfinite(v)),
                         'pre_ok': all(bool(p) for p in pre)}

    def finite(self, oid, x, pre=(), **kw):
        """real-arithmetic totality: every denominator occurring in the term x is non-zero.
        concrete mode: the computed float is finite."""
        if self.mode == 'sym':
            dens = sr.divisors([sr.lift(x)])
            g = sr.TRUE
            for d in dens:
                g = sr.band(g, sr.bnot(sr.cmp('=', d, sr.ZERO)))
            if oid in self.obs:
                raise KeyError('duplicate obligation id ' + oid)
            self.obs[oid] = Ob(oid, 'bool', None, None, g, list(self.pre) + self._prenodes(pre),
                               nodefs=True, **kw)
        else:
            v = _fl(x)
            self.obs[oid] = {'kind': 'finite', 'lhs': v, 'rhs': None, 'ok': math.isfinite(v),
                             'pre_ok': all(bool(p) for p in pre)}

    def finite_all(self, oid, values, pre=(), **kw):
        """totality of a whole vector: one obligation per DISTINCT denominator node (sym);
        one 'all finite' observation (conc).  Replay looks <oid>/den<k> up as <oid>."""
        if self.mode == 'sym':
            seen = set()
            k = 0
            for d in sr.divisors([sr.lift(v) for v in values]):
                if d.id in seen:
                    continue
                seen.add(d.id)
                g = sr.bnot(sr.cmp('=', d, sr.ZERO))
                if g is sr.TRUE:
                    continue
                self.obs['%s/den%d' % (oid, k)] = Ob('%s/den%d' % (oid, k), 'bool', None, None, g,
                                                     list(self.pre) + self._prenodes(pre), nodefs=True, **kw)
                k += 1
            if k == 0:
                self.obs[oid + '/den0'] = Ob(oid + '/den0', 'bool', None, None, sr.TRUE, [], nodefs=True, **kw)
        else:
            vs = [_fl(v) for v in values]
            bad = [v for v in vs if not math.isfinite(v)]
            self.obs[oid] = {'kind': 'finite', 'lhs': (bad[0] if bad else 0.0), 'rhs': None, 'ok': not bad,
                             'pre_ok': all(bool(p) for p in pre)}

    def sign_cubes(self, exprs):
        """all sign patterns (<0, =0, >0) of the given expressions: a cover of the domain (symbolic mode)"""
        if self.mode != 'sym':
            return None
        import itertools as _it
        ns = [sr.lift(e) for e in exprs]
        out = []
        for pat in _it.product((-1, 0, 1), repeat=len(ns)):
            cube = []
            for sg, n in zip(pat, ns):
                cube.append(sr.cmp('<', n, sr.ZERO) if sg < 0 else (sr.cmp('=', n, sr.ZERO) if sg == 0 else sr.cmp('<', sr.ZERO, n)))
            out.append(cube)
        return out

    def same_term(self, oid, a, b, **kw):
        """structural identity first (hash-consed), solver equality otherwise"""
        if self.mode == 'sym' and sr.lift(a) is sr.lift(b):
            self.obs[oid] = Ob(oid, 'eq', sr.lift(a), sr.lift(b), sr.TRUE, [], **kw)
            return
        self.eq(oid, a, b, **kw)

    def fact(self, oid, ok, detail=''):
        """a structural (non-arithmetic) observation decided by the execution itself"""
        if oid in self.obs:
            raise KeyError('duplicate obligation id ' + oid)
        if self.mode == 'sym':
            o = Ob(oid, 'fact', None, None, sr.bconst(bool(ok)), [], note=detail)
            self.obs[oid] = o
        else:
            self.obs[oid] = {'kind': 'fact', 'ok': bool(ok), 'pre_ok': True, 'lhs': None, 'rhs': None,
                             'detail': detail}

    # ---- path exploration ----------------------------------------------------------------
    def decide(self, node):
        k = len(self.decisions)
        if k < len(self.forced):
            v = self.forced[k]
            self.decisions.append((v, True))
            c = node if v else sr.bnot(node)
            sr.PC.append(c); self.pre.append(c)
            return v
        if k >= self.max_decisions:
            raise PathLimit('more than %d symbolic decisions on one path' % self.max_decisions)
        base = list(sr.PC)
        rt = smt.check(base + [node], timeout=20)['res']
        rf = smt.check(base + [sr.bnot(node)], timeout=20)['res']
        if rt == 'unsat' and rf == 'unsat':
            raise Infeasible()
        if rt == 'unsat':
            v, fork = False, False
        elif rf == 'unsat':
            v, fork = True, False
        else:
            v, fork = True, True        # undecided (or unknown): explore both, True first
        self.decisions.append((v, fork))
        c = node if v else sr.bnot(node)
        sr.PC.append(c); self.pre.append(c)
        return v


# =============================================================================================
# running one scenario in the three modes

def _load(fn_ref):
    mod, name = fn_ref.split(':')
    return getattr(importlib.import_module(mod), name)


def run_sym(fn, params, decisions=None, max_decisions=64, nostubs=False):
    del sr.PC[:]
    sr.reset_divs()
    ctx = Ctx('sym', decisions=decisions, max_decisions=max_decisions)
    sr._decider[0] = ctx.decide
    try:
        if nostubs:
            # purely structural scenario (no symbolic data reaches the library): run on the unpatched modules
            symnp.uninstall()
            import warnings
            with warnings.catch_warnings(), np.errstate(all='ignore'):
                warnings.simplefilter('ignore')
                fn(ctx, **params)
        else:
            with symnp.symbolic():
                fn(ctx, **params)
    finally:
        sr._decider[0] = None
        del sr.PC[:]
    return ctx


def run_conc(fn, params, env=None, seed=0, mode='conc'):
    ctx = Ctx(mode, env=env, seed=seed)
    symnp.uninstall()
    with np.errstate(all='ignore'):
        import warnings
        with warnings.catch_warnings():
            warnings.simplefilter('ignore')
            fn(ctx, **params)
    return ctx


def explore(fn, params, max_paths=256, max_decisions=64, nostubs=False):
    """all paths of a scenario: list of Ctx.  Most scenarios have exactly one path."""
    paths = []
    work = [[]]
    truncated = False
    while work:
        dec = work.pop()
        try:
            ctx = run_sym(fn, params, decisions=dec, max_decisions=max_decisions, nostubs=nostubs)
        except Infeasible:
            continue
        paths.append(ctx)
        # schedule the unexplored alternatives of forks beyond the forced prefix
        for i in range(len(dec), len(ctx.decisions)):
            v, fork = ctx.decisions[i]
            if fork:
                alt = [d[0] for d in ctx.decisions[:i]] + [not v]
                work.append(alt)
        if len(paths) + len(work) > max_paths:
            truncated = True
            break
    return paths, truncated


# =============================================================================================
# discharging obligations

def _defs_hyps(nodes):
    hy = []
    seen = set()
    for d in sr.divisors(nodes):
        if d.id in seen:
            continue
        seen.add(d.id)
        h = sr.bnot(sr.cmp('=', d, sr.ZERO))
        if h is not sr.TRUE:
            hy.append(h)
    return hy


def auto_axioms(nodes):
    """universally true facts about the uninterpreted functions occurring in a query:
    a**b > 0 for constant a > 0 ; exp(x) > 0 ; -1 <= sin, cos <= 1"""
    out = []
    for n in sr.topo(nodes):
        if n.op != 'uf':
            continue
        f = n.args[0]
        if f == 'pow' and sr.isc(n.args[1]) and sr.cv(n.args[1]) > 0:
            out.append(sr.cmp('<', sr.ZERO, n))
        elif f == 'exp':
            out.append(sr.cmp('<', sr.ZERO, n))
        elif f in ('sin', 'cos'):
            out.append(sr.cmp('<=', n, sr.ONE)); out.append(sr.cmp('<=', sr.const(-1), n))
    return out


def _relevant(pre, goal_nodes):
    """keep preconditions connected (through shared variables) to the goal"""
    need = set(sr.free_vars(goal_nodes))
    items = [(p, sr.free_vars([p])) for p in pre]
    keep = []
    changed = True
    rest = items
    while changed:
        changed = False
        nxt = []
        for p, fv in rest:
            if not fv or (fv & need):
                keep.append(p); need |= fv; changed = True
            else:
                nxt.append((p, fv))
        rest = nxt
    return keep, [p for p, _ in rest]


def complete_model(env, all_pre, timeout=20):
    """extend a partial model to all variables of the preconditions (values already fixed stay)"""
    fv = sr.free_vars(all_pre)
    missing = fv - set(env)
    if not missing:
        return env
    fixed = []
    for k, v in env.items():
        if isinstance(v, bool):
            continue
        fixed.append(sr.cmp('=', sr.var(k), sr.const(Fraction(v))))
    r = smt.check(list(all_pre) + fixed, timeout=timeout, want_model=True)
    if r['res'] == 'sat' and r['model'] is not None:
        out = dict(r['model']); out.update(env)
        return out
    return None


def nice_model(asserts, model, budget=20.0, per_call=3):
    """a counterexample whose values float64 can hit exactly: greedily pin the free variables of a satisfiable query to small
    integers while it stays satisfiable (knife-edge witnesses such as 'a difference equal to a threshold' replay in floats only
    when the other values are exactly representable).  Returns a model or None."""
    t0 = time.time()
    names = sorted(sr.free_vars(asserts))
    fixed = []
    cur = model
    for v in names:
        if time.time() - t0 > budget:
            break
        x = sr.var(v)
        for cand in (0, 1, 2, 3, 4, -1, 5, 6):
            c = sr.cmp('=', x, sr.const(cand))
            r = smt.check(asserts + fixed + [c], timeout=per_call, want_model=True)
            if r['res'] == 'sat' and r['model'] is not None:
                fixed.append(c)
                cur = r['model']
                break
            if time.time() - t0 > budget:
                break
    return cur if fixed else None


def discharge(ob, axioms=(), timeout=20, solvers=('z3',), robust=True):
    """returns dict(status, model, time, solver, nq).  status: unsat | sat | unknown"""
    if ob.goal is sr.TRUE:
        return {'status': 'unsat', 'model': None, 'time': 0.0, 'solver': 'term-identity', 'nq': 0}
    neg = sr.bnot(ob.goal)
    goal_nodes = [ob.goal]
    pre_all = list(ob.pre) + list(axioms) + list(ob.axioms)
    hyps = [] if ob.nodefs else _defs_hyps(goal_nodes)
    keep, dropped = _relevant(pre_all, goal_nodes + hyps)
    if not ob.nodefs:
        hyps = _defs_hyps(goal_nodes + keep)
    asserts = keep + hyps + [neg]
    asserts = asserts + auto_axioms(asserts)
    to = ob.timeout or timeout
    nq = 0
    tt = 0.0
    if ob.cubes:
        # the cubes cover the domain: all cubes unsat => discharged; a sat cube => counterexample
        t_ = time.time()
        res = smt.check_many([asserts + list(cube) for cube in ob.cubes], timeout_each=min(to, 30))
        nq += len(ob.cubes); tt += time.time() - t_
        for cube, r in zip(ob.cubes, res):
            if r == 'sat':
                r2 = smt.check(asserts + list(cube), timeout=to, want_model=True, solvers=solvers)
                nq += 1; tt += r2['time']
                if r2['res'] == 'sat':
                    return {'status': 'sat', 'model': r2['model'], 'time': tt, 'solver': r2['solver'], 'nq': nq,
                            'asserts': asserts + list(cube), 'pre_all': pre_all}
        worst = 'unsat' if all(r == 'unsat' for r in res) else 'unknown'
        return {'status': worst, 'model': None, 'time': tt, 'solver': 'z3-cubes', 'nq': nq}
    if ob.fallback_cubes:
        # a cover is available: give the single query a short budget on the first solver only
        r = smt.check(asserts, timeout=min(to, 8), want_model=True, solvers=solvers[:1])
    else:
        r = smt.check(asserts, timeout=to, want_model=True, solvers=solvers)
    nq += 1; tt += r['time']
    res = r['res']
    if res == 'sat':
        model = r['model']
        if robust and ob.kind == 'eq' and ob.lhs is not None:
            # prefer a robust witness: margin + magnitude box (knife-edge / algebraic models replay badly)
            d = sr.sub(ob.lhs, ob.rhs)
            big = sr.bor(sr.cmp('<=', sr.const(Fraction(1, 100)), d), sr.cmp('<=', d, sr.const(Fraction(-1, 100))))
            box = []
            for v in sorted(sr.free_vars(asserts)):
                x = sr.var(v)
                box += [sr.cmp('<=', x, sr.const(50)), sr.cmp('<=', sr.const(-50), x)]
            r2 = smt.check(keep + hyps + [big] + box, timeout=min(to, 10), want_model=True, solvers=solvers)
            nq += 1; tt += r2['time']
            if r2['res'] == 'sat' and r2['model'] is not None:
                model = r2['model']
        return {'status': 'sat', 'model': model, 'time': tt, 'solver': r['solver'], 'nq': nq,
                'asserts': asserts, 'pre_all': pre_all}
    if res == 'unsat':
        return {'status': 'unsat', 'model': None, 'time': tt, 'solver': r['solver'], 'nq': nq}
    if ob.fallback_cubes:
        # the single query was not decided: split over a cover of the domain (each cube removes the case splits)
        t_ = time.time()
        resc = smt.check_many([asserts + list(cube) for cube in ob.fallback_cubes], timeout_each=min(to, 10))
        nq += len(ob.fallback_cubes); tt += time.time() - t_
        for cube, rc_ in zip(ob.fallback_cubes, resc):
            if rc_ == 'sat':
                r2 = smt.check(asserts + list(cube), timeout=to, want_model=True, solvers=solvers)
                nq += 1; tt += r2['time']
                if r2['res'] == 'sat':
                    return {'status': 'sat', 'model': r2['model'], 'time': tt, 'solver': r2['solver'], 'nq': nq,
                            'asserts': asserts + list(cube), 'pre_all': pre_all}
        if all(rc_ == 'unsat' for rc_ in resc):
            return {'status': 'unsat', 'model': None, 'time': tt, 'solver': 'z3-cubes(fallback)', 'nq': nq}
    if not ob.fallback_cubes:
        # generic fallback: case-split on the conditions of the if-then-else nodes of the query (atomic comparisons only; at most
        # 7 distinct conditions = 128 cubes).  Sound: the cubes cover all truth assignments of those conditions.
        conds = []
        for n_ in sr.topo(asserts):
            if n_.op == 'ite' and n_.args[0].op in ('<', '<=', '=') and all(n_.args[0] is not c_ for c_ in conds):
                conds.append(n_.args[0])
        if 1 <= len(conds) <= 7:
            import itertools as _it
            cubes = [[(c_ if v_ else sr.bnot(c_)) for c_, v_ in zip(conds, pat)] for pat in _it.product((True, False), repeat=len(conds))]
            t_ = time.time()
            resc = smt.check_many([asserts + cube for cube in cubes], timeout_each=min(to, 10))
            nq += len(cubes); tt += time.time() - t_
            for cube, rc_ in zip(cubes, resc):
                if rc_ == 'sat':
                    r2 = smt.check(asserts + cube, timeout=to, want_model=True, solvers=solvers)
                    nq += 1; tt += r2['time']
                    if r2['res'] == 'sat':
                        return {'status': 'sat', 'model': r2['model'], 'time': tt, 'solver': r2['solver'], 'nq': nq,
                                'asserts': asserts + cube, 'pre_all': pre_all}
            if all(rc_ == 'unsat' for rc_ in resc):
                return {'status': 'unsat', 'model': None, 'time': tt, 'solver': 'z3-cubes(ite-split)', 'nq': nq}
    return {'status': 'unknown', 'model': None, 'time': tt, 'solver': r['solver'], 'nq': nq, 'raw': res}


# =============================================================================================
# one scenario end to end (executed inside a worker process)

def _cmp_close(a, b, tol=1e-8):
    if a is None or b is None:
        return True
    if isinstance(a, bool) or isinstance(b, bool):
        return bool(a) == bool(b)
    if not (math.isfinite(a) and math.isfinite(b)):
        return (not math.isfinite(a)) and (not math.isfinite(b))
    return abs(a - b) <= tol * max(1.0, abs(a), abs(b))


def process_scenario(task):
    """task: dict(fn='module:func', params={}, name=str, tier, seed, timeout, max_paths, validate)"""
    t0 = time.time()
    smt.reset_stats()
    out = {'name': task['name'], 'fn': task['fn'], 'params': task['params'], 'results': [],
           'validation': {'points': 0, 'compared': 0, 'mismatch': []}, 'errors': [], 'vacuity': None,
           'axioms': [], 'paths': 0, 'truncated': False}
    try:
        fn = _load(task['fn'])
        params = task['params']
        timeout = task.get('timeout', 20)
        paths, trunc = explore(fn, params, max_paths=task.get('max_paths', 256),
                               max_decisions=task.get('max_decisions', 64), nostubs=task.get('nostubs', False))
        out['paths'] = len(paths)
        out['truncated'] = trunc
        if trunc:
            out['errors'].append('path limit reached: exploration incomplete')
        if not paths:
            out['errors'].append('no feasible path')
        multi = len(paths) > 1
        # ---- translator validation (Serval-style): concrete run vs symbolic trace at random points
        nval = task.get('validate', 1)
        for k in range(nval):
            try:
                cc = None
                for attempt in range(6):
                    cc = run_conc(fn, params, seed=(task.get('seed', 0) * 1000003 + k * 7919 + attempt * 104729
                                                    + zlib.crc32(task['name'].encode()) % 100000), mode='rand')
                    if cc.pre_ok:
                        break
                if cc is None or not cc.pre_ok:
                    continue
                out['validation']['points'] += 1
                if cc.stats.get('histories'):
                    out.setdefault('stats', {})
                    out['stats']['traces_validated'] = out['stats'].get('traces_validated', 0) + cc.stats['histories']
                env = cc.env
                for pi, ctx in enumerate(paths):
                    pc = [p for p in ctx.pre]
                    try:
                        vals = sr.evalf(pc, env) if pc else []
                    except KeyError:
                        continue
                    if not all(bool(v) for v in vals):
                        continue
                    for oid, ob in ctx.obs.items():
                        c = cc.obs.get(oid)
                        if c is None and '/den' in oid and oid.rsplit('/den', 1)[0] in cc.obs:
                            continue
                        if c is None:
                            if not multi:
                                out['validation']['mismatch'].append('%s: obligation missing in concrete run' % oid)
                            continue
                        if ob.kind == 'eq' and ob.lhs is not None:
                            try:
                                l, r = sr.evalf([ob.lhs, ob.rhs], env)
                            except KeyError as e:
                                out['validation']['mismatch'].append('%s: env lacks %s' % (oid, e)); continue
                            out['validation']['compared'] += 2
                            if not (_cmp_close(l, c['lhs']) and _cmp_close(r, c['rhs'])):
                                out['validation']['mismatch'].append(
                                    '%s: symbolic (%r,%r) vs concrete (%r,%r)' % (oid, l, r, c['lhs'], c['rhs']))
                    break
            except Exception as e:      # noqa
                out['errors'].append('validation run failed: %s' % ''.join(
                    traceback.format_exception_only(type(e), e)).strip())
        # ---- obligations
        for pi, ctx in enumerate(paths):
            suffix = ('#p%d' % pi) if multi else ''
            for t in ctx.axiom_texts:
                if t not in out['axioms']:
                    out['axioms'].append(t)
            for k_, v_ in ctx.stats.items():
                out.setdefault('stats', {})
                out['stats'][k_] = out['stats'].get(k_, 0) + v_
            for fnm in ctx.functions:
                out.setdefault('functions', [])
                if fnm not in out['functions']:
                    out['functions'].append(fnm)
            # vacuity: preconditions (+axioms, + path condition) satisfiable
            if ctx.pre or ctx.axioms:
                r = smt.check(list(ctx.pre) + list(ctx.axioms), timeout=timeout)
                vac = r['res']
            else:
                vac = 'sat'
            if (out['vacuity'] is None or vac != 'sat') and not (vac == 'unsat' and getattr(ctx, 'decisions', None)):
                out['vacuity'] = vac
            if vac == 'unsat':
                if getattr(ctx, 'decisions', None):
                    # a branch whose feasibility query was not decided in time during exploration was followed and turns out
                    # infeasible: nothing to check on it (not an error as long as some path of the scenario is feasible)
                    out['infeasible_paths'] = out.get('infeasible_paths', 0) + 1
                    if out['infeasible_paths'] >= len(paths):
                        out['errors'].append('vacuous scenario: every explored path has unsatisfiable preconditions')
                    continue
                out['errors'].append('vacuous scenario: preconditions unsatisfiable (path %d)' % pi)
                continue
            # reachability twin: the definedness hypotheses every identity query carries must be jointly satisfiable with the
            # preconditions, otherwise the obligations of this scenario would hold vacuously (e.g. a denominator that is
            # identically zero)
            goals_ = [ob.goal for ob in ctx.obs.values() if ob.kind != 'fact' and not ob.nodefs and ob.goal is not sr.TRUE]
            if goals_:
                hy_ = _defs_hyps(goals_ + list(ctx.pre))
                rv = smt.check(list(ctx.pre) + list(ctx.axioms) + hy_, timeout=min(timeout, 30))
                out['reach'] = rv['res']
                if rv['res'] == 'unsat':
                    out['errors'].append('definedness hypotheses unsatisfiable together with the preconditions (a denominator is '
                                         'identically zero?): obligations of path %d would be vacuous' % pi)
                    continue
            batched = batch_discharge(ctx, task.get('batch', 10), min(6, timeout))
            for oid, ob in ctx.obs.items():
                rec = {'oid': oid + suffix, 'required': ob.required, 'note': ob.note}
                if oid in batched:
                    rec.update(status='unsat', time=batched[oid][0], solver='z3-batch', nq=1, size=sr.size([ob.goal]),
                               batch=batched[oid][1])
                    out['results'].append(rec)
                    continue
                try:
                    if ob.kind == 'fact':
                        ok = ob.goal is sr.TRUE
                        rec.update(status='unsat' if ok else 'sat', time=0.0, solver='execution', nq=0)
                        if not ok:
                            # structural fact: replay concretely with a sample point
                            env = _any_model(ctx, timeout)
                            rec['replay'] = _replay(fn, params, env, oid)
                            rec['env'] = env
                    else:
                        d = discharge(ob, axioms=ctx.axioms, timeout=timeout,
                                      solvers=task.get('solvers', ('z3', 'z3new')))
                        rec.update(status=d['status'], time=round(d['time'], 3), solver=d['solver'], nq=d['nq'])
                        rec['size'] = sr.size([ob.goal])
                        if d['status'] == 'sat':
                            env = d['model'] or {}
                            full = complete_model(env, d['pre_all'] + list(ctx.pre), timeout=timeout)
                            if full is None:
                                rec['replay'] = {'reproduced': False, 'why': 'model completion failed'}
                            else:
                                envf = smt.model_to_float(full)
                                rec['env'] = envf
                                rec['replay'] = _replay(fn, params, envf, oid)
                                if not rec['replay'].get('reproduced') and d.get('asserts') and out.setdefault('nice_tries', 0) < 3:
                                    out['nice_tries'] += 1      # at most three re-derivations per scenario (each costs up to 20 s)
                                    # second attempt with a witness pinned to small integers wherever the query allows it
                                    nm = nice_model(d['asserts'], env)
                                    full2 = complete_model(nm, d['pre_all'] + list(ctx.pre), timeout=timeout) if nm else None
                                    if full2 is not None:
                                        envf2 = smt.model_to_float(full2)
                                        rp2 = _replay(fn, params, envf2, oid)
                                        if rp2.get('reproduced'):
                                            rec['env'] = envf2
                                            rec['replay'] = rp2
                                            rec['replay']['witness'] = 'pinned to small integers after the first model did not reproduce in float64'
                        if task.get('crosscheck') and d['status'] == 'unsat' and d['nq']:
                            rec['cross'] = _cross(ob, ctx.axioms, timeout)
                except Exception as e:   # noqa
                    rec.update(status='error', err=''.join(traceback.format_exception_only(type(e), e)).strip())
                out['results'].append(rec)
    except PathLimit as e:
        out['errors'].append('path limit: %s' % e)
    except Exception as e:   # noqa
        out['errors'].append('scenario crashed: ' + traceback.format_exc(limit=8))
    out['wall'] = round(time.time() - t0, 3)
    out['smt'] = dict(smt.STATS)
    return out


def batch_discharge(ctx, size, timeout):
    """several obligations in one solver process:  pre AND  OR_i (H_i AND local_pre_i AND NOT goal_i)
    is unsat  iff  every  pre AND H_i AND local_pre_i => goal_i  holds (H_i = the obligation's own definedness
    hypotheses).  Returns {oid: (time share, batch size)} for batches answered unsat; everything else is
    discharged individually afterwards (so a sat / unknown batch costs at most `timeout`)."""
    done = {}
    if size <= 1:
        return done
    cand = [(oid, ob) for oid, ob in ctx.obs.items()
            if ob.kind != 'fact' and ob.goal is not sr.TRUE and not ob.cubes and not ob.axioms]
    npre = len(ctx.pre)
    common = list(ctx.pre) + list(ctx.axioms)
    for k in range(0, len(cand), size):
        chunk = cand[k:k + size]
        if len(chunk) < 2:
            continue
        disj = sr.FALSE
        for oid, ob in chunk:
            local = [p for p in ob.pre if p not in common]
            parts = local + ([] if ob.nodefs else _defs_hyps([ob.goal] + local)) + [sr.bnot(ob.goal)]
            disj = sr.bor(disj, sr.conj(parts))
        asserts = common + ([] if all(ob.nodefs for _, ob in chunk) else _defs_hyps(common)) + [disj]
        asserts = asserts + auto_axioms(asserts)
        r = smt.check(asserts, timeout=timeout)
        if r['res'] == 'unsat':
            for oid, ob in chunk:
                done[oid] = (round(r['time'] / len(chunk), 4), len(chunk))
    return done


def _any_model(ctx, timeout):
    pre = list(ctx.pre) + list(ctx.axioms)
    if not pre:
        return {}
    r = smt.check(pre, timeout=timeout, want_model=True)
    if r['res'] == 'sat' and r['model'] is not None:
        return smt.model_to_float(r['model'])
    return {}


def _cross(ob, axioms, timeout):
    """re-ask an unsat answer to a second solver; returns that solver's verdict"""
    neg = sr.bnot(ob.goal)
    pre_all = list(ob.pre) + list(axioms) + list(ob.axioms)
    hyps = [] if ob.nodefs else _defs_hyps([ob.goal])
    keep, _ = _relevant(pre_all, [ob.goal] + hyps)
    if not ob.nodefs:
        hyps = _defs_hyps([ob.goal] + keep)
    r = smt.check(keep + hyps + [neg], timeout=timeout, solvers=('z3new',))
    return r['res'] if r else 'unavailable'


def _replay(fn, params, env, oid):
    """run the scenario concretely (real NumPy/SciPy, no stubs) on the model and look the obligation up"""
    try:
        # variables the model does not mention take a default consistent value through 'rand' sampling
        cc = run_conc(fn, params, env=env, seed=12345, mode='rand')
    except Exception as e:   # noqa
        return {'reproduced': False, 'why': 'concrete run raised %s' % ''.join(
            traceback.format_exception_only(type(e), e)).strip()}
    finally:
        pass
    c = cc.obs.get(oid)
    if c is None and '/den' in oid:
        c = cc.obs.get(oid.rsplit('/den', 1)[0])
    if c is None:
        return {'reproduced': False, 'why': 'obligation not reached in concrete run'}
    if not cc.pre_ok:
        bad = [t for ok, t in cc.pre if not ok][:3]
        return {'reproduced': False, 'why': 'preconditions not met by the model in floats %s' % bad}
    if not c.get('pre_ok', True):
        return {'reproduced': False, 'why': 'local precondition not met in floats'}
    return {'reproduced': (not c['ok']), 'lhs': c.get('lhs'), 'rhs': c.get('rhs'), 'kind': c['kind'],
            'detail': c.get('detail', '')}
