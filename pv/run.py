"""./check <property-id> <quick|thorough>   |   ./check --replay <file>   |   ./check --selftest

Exit codes: 0 every required obligation discharged (known findings only reported);
            1 replay-confirmed violation not listed in known_findings.json (prints VIOLATION line);
            2 harness error (non-reproducing counterexample, solver disagreement, vacuous scenario,
              translator-validation mismatch, crashed scenario);
            3 inconclusive (a required obligation neither discharged nor refuted).
"""
import sys
import os
# the code analysed is /repo's current working tree (PV_REPO overrides it only for mutation rehearsals on scratch clones;
# registered commands never set it)
REPO = os.environ.get('PV_REPO', '/repo')
sys.path.insert(0, REPO + '/src')
import re
import json
import time
import fnmatch
import importlib
import multiprocessing as mp

HERE = os.path.dirname(os.path.dirname(os.path.abspath(__file__)))
sys.path.insert(0, HERE)

import pyfvtool   # noqa: E402
assert os.path.realpath(pyfvtool.__file__).startswith(os.path.realpath(REPO) + '/src/'), \
    'pyfvtool imported from %s, not from %s/src' % (pyfvtool.__file__, REPO)

from pv import core, smt   # noqa: E402

NCPU = int(os.environ.get('PV_JOBS', '16'))


def load_findings():
    p = os.path.join(HERE, 'known_findings.json')
    if not os.path.exists(p):
        return []
    return json.load(open(p)).get('findings', [])


def _match(f, oid):
    if 'regex' in f:
        return re.search(f['regex'], oid) is not None
    return fnmatch.fnmatch(oid, f['match'])


def _safe(oid):
    return re.sub(r'[^A-Za-z0-9_.-]+', '_', oid)[:150]


def write_replay(prop, res, rec):
    rdir = os.environ.get('PV_REPLAY_DIR', os.path.join(HERE, 'replays'))
    os.makedirs(rdir, exist_ok=True)
    path = os.path.join(rdir, '%s-%s.json' % (prop, _safe(rec['oid'])))
    base_oid = rec['oid'].split('#p')[0]
    json.dump({'property': prop, 'fn': res['fn'], 'params': res['params'], 'oid': base_oid,
               'scenario': res['name'], 'env': rec.get('env', {}), 'observed': rec.get('replay')},
              open(path, 'w'), indent=1, sort_keys=True)
    return path


def do_replay(path):
    r = json.load(open(path))
    fn = core._load(r['fn'])
    rep = core._replay(fn, r['params'], r['env'], r['oid'])
    print('replay %s scenario=%s obligation=%s -> %s' % (path, r['scenario'], r['oid'], json.dumps(rep)))
    if rep.get('reproduced'):
        print('VIOLATION property=%s replay=%s' % (r['property'], path))
        return 1
    return 0


def main(argv):
    if len(argv) >= 2 and argv[0] == '--replay':
        return do_replay(argv[1])
    if argv and argv[0] == '--selftest':
        from pv import selftest
        return selftest.main()
    prop = argv[0]
    tier = argv[1] if len(argv) > 1 else os.environ.get('VERIF_TIER', 'quick')
    only = argv[2] if len(argv) > 2 else None
    seed = int(os.environ.get('VERIF_SEED', '0') or 0)
    t0 = time.time()
    mod = importlib.import_module('pv.props.%s' % prop.lower())
    tasks = mod.scenarios(tier)
    if only:
        tasks = [t for t in tasks if fnmatch.fnmatch(t['name'], only)]
    for t in tasks:
        t.setdefault('seed', seed)
        t.setdefault('tier', tier)
    ctxm = mp.get_context('fork')
    results = []
    if NCPU <= 1 or len(tasks) <= 1:
        for t in tasks:
            results.append(core.process_scenario(t))
    else:
        with ctxm.Pool(min(NCPU, len(tasks)), maxtasksperchild=8) as pool:
            for r in pool.imap_unordered(core.process_scenario, tasks, chunksize=1):
                results.append(r)
                if os.environ.get('PV_VERBOSE'):
                    st = {}
                    for x in r['results']:
                        st[x['status']] = st.get(x['status'], 0) + 1
                    print('  [%6.1fs] %-60s %s %s' % (time.time() - t0, r['name'], st, r['errors'][:1]), flush=True)
    results.sort(key=lambda r: r['name'])
    return report(prop, tier, seed, mod, results, t0)


def report(prop, tier, seed, mod, results, t0):
    findings = [f for f in load_findings() if f.get('property') == prop]
    known = [f for f in findings if f.get('status') == 'known']
    n_ob = n_dis = n_opt = n_opt_dis = 0
    violations = []      # (res, rec, path)
    known_hits = {}      # finding index -> list of oids
    harness = []
    inconclusive = []
    known_inconclusive = []
    samples = []
    fact_samples = []
    nq = 0
    st_time = 0.0
    by_solver = {}
    val_pts = val_cmp = 0
    cross_n = cross_bad = 0
    axioms = []
    functions = set(getattr(mod, 'META', {}).get('functions', []))
    vac = 0
    reach = 0
    paths = 0
    stats = {}
    for res in results:
        for e in res['errors']:
            harness.append('%s: %s' % (res['name'], e))
        for m in res['validation']['mismatch']:
            harness.append('%s: translator validation mismatch: %s' % (res['name'], m))
        val_pts += res['validation']['points']
        val_cmp += res['validation']['compared']
        nq += res['smt']['queries']
        st_time += res['smt']['time']
        for k, v in res['smt']['by_solver'].items():
            b = by_solver.setdefault(k, [0, 0.0]); b[0] += v[0]; b[1] += v[1]
        for a in res['axioms']:
            if a not in axioms:
                axioms.append(a)
        for f in res.get('functions', []):
            functions.add(f)
        if res['vacuity'] == 'sat':
            vac += 1
        if res.get('reach') == 'sat':
            reach += 1
        elif res['vacuity'] not in (None, 'sat', 'unsat'):
            harness.append('%s: vacuity witness not obtained (%s)' % (res['name'], res['vacuity']))
        paths += res['paths']
        for k_, v_ in res.get('stats', {}).items():
            stats[k_] = stats.get(k_, 0) + v_
        for rec in res['results']:
            stt = rec['status']
            if 'cross' in rec:
                cross_n += 1
                if rec['cross'] == 'sat':
                    cross_bad += 1
                    harness.append('%s: solver disagreement on %s' % (res['name'], rec['oid']))
            if stt == 'error':
                harness.append('%s: %s: %s' % (res['name'], rec['oid'], rec.get('err')))
                continue
            is_known = None
            if stt == 'sat':
                rp = rec.get('replay') or {}
                if not rp.get('reproduced') and any(_match(f, rec['oid']) for f in known):
                    known_inconclusive.append(rec['oid'])
                    continue
                if not rp.get('reproduced'):
                    if rec['required'] and rp.get('kind') in ('finite', 'nz') and rp.get('why') is None:
                        inconclusive.append('%s: %s: zero denominator in exact arithmetic, not hit exactly by the float64 replay'
                                            % (res['name'], rec['oid']))
                    elif rec['required']:
                        harness.append('%s: counterexample for %s did not reproduce on the real code (%s)'
                                       % (res['name'], rec['oid'], rp.get('why', rp)))
                    continue
                for i, f in enumerate(known):
                    if _match(f, rec['oid']):
                        is_known = i
                        break
                path = write_replay(prop, res, rec)
                if is_known is not None:
                    known_hits.setdefault(is_known, []).append(rec['oid'])
                    continue
                violations.append((res, rec, path))
                continue
            if stt != 'unsat' and any(_match(f, rec['oid']) for f in known):
                known_inconclusive.append(rec['oid'])      # family already recorded as violated
                continue
            if rec['required']:
                n_ob += 1
                if stt == 'unsat':
                    n_dis += 1
                    if len(samples) < 3 and not rec.get('nq') and len(fact_samples) < 4:
                        fact_samples.append({'obligation': rec['oid'], 'scenario': res['name'], 'verdict': 'holds',
                                             'decided_by': rec.get('solver')})
                    if len(samples) < 6 and rec.get('nq'):
                        samples.append({'obligation': rec['oid'], 'scenario': res['name'], 'verdict': 'unsat',
                                        'solver': rec.get('solver'), 'solver_s': rec.get('time'),
                                        'dag_nodes': rec.get('size')})
                else:
                    inconclusive.append('%s: %s (%s)' % (res['name'], rec['oid'], rec.get('raw', stt)))
            else:
                n_opt += 1
                if stt == 'unsat':
                    n_opt_dis += 1
    wall = time.time() - t0
    meta = getattr(mod, 'META', {})
    for i, oids in sorted(known_hits.items()):
        f = known[i]
        print('KNOWN-FINDING: property=%s %s [%d obligations, e.g. %s]' % (prop, f['what_fails'], len(oids), oids[0]))
    for res, rec, path in violations:
        rp = rec.get('replay', {})
        print('counterexample: %s  observed lhs=%r rhs=%r' % (rec['oid'], rp.get('lhs'), rp.get('rhs')))
        print('VIOLATION property=%s replay=%s' % (prop, path))
    for h in harness[:40]:
        print('HARNESS-ERROR: ' + h)
    for h in inconclusive[:40]:
        print('INCONCLUSIVE: ' + h)
    code = 0
    if violations:
        code = 1
    elif harness:
        code = 2
    elif inconclusive:
        code = 3
    elif n_ob == 0:
        print('HARNESS-ERROR: no obligations generated')
        code = 2
    level = meta.get('level', 'proof')
    cov = {
        'obligations': n_ob, 'discharged': n_dis,
        'checker_cmd': './check %s %s' % (prop, tier),
        'trusted_base': meta.get('trusted_base', []) + [
            'z3 4.8.12 (/usr/bin/z3) verdicts; z3-new 5.1.0 cross-checks where counted',
            'pv/symreal.py + pv/symnp.py tracing layer (validated each run against real NumPy/SciPy, see translator_validation)',
            'NumPy indexing/broadcast semantics on object arrays = on float arrays',
            'real-number model of float64 arithmetic (rounding/overflow outside the claim)'],
        'evaluations': n_ob + n_opt + len(violations) + sum(len(v) for v in known_hits.values()),
        'distinct_nontrivial': n_dis + n_opt_dis,
        'rule': meta.get('rule', 'one obligation = one closed formula pre => goal over the symbolic trace of the real '
                                 'code; distinct by obligation id (grid x dims x term x location); non-trivial = needed a solver query '
                                 'or a structural comparison of traces'),
        'samples': (samples + fact_samples) or [{'note': 'no obligation recorded'}],
        'functions_encoded': sorted(functions),
        'bounds': meta.get('bounds', ''),
        'outside_bounds': meta.get('outside', ''),
        'queries_discharged': nq, 'solver_time_s': round(st_time, 2),
        'per_solver': {k: {'queries': v[0], 'time_s': round(v[1], 2)} for k, v in by_solver.items()},
        'optional_obligations': n_opt, 'optional_discharged': n_opt_dis,
        'scenarios': len(results), 'paths': paths,
        'vacuity_witnesses': vac, 'definedness_reachability_witnesses': reach,
        'translator_validation': {'points': val_pts, 'values_compared': val_cmp},
        'cross_solver_checks': cross_n,
        'axiom_instances': axioms,
        'known_findings_hit': [{'what_fails': known[i]['what_fails'], 'obligations': len(o), 'example': o[0]}
                               for i, o in sorted(known_hits.items())],
        'undecided_within_known_finding_families': len(known_inconclusive),
        'inconclusive': inconclusive[:50], 'harness_errors': harness[:50],
        'exit_code': code,
    }
    if level == 'model_checking':
        cov['states'] = max(1, stats.get('states', paths))
        cov['transitions'] = max(1, stats.get('transitions', n_ob + n_opt))
        cov['traces_validated_against_impl'] = stats.get('traces_validated', val_pts)
    for k_, v_ in stats.items():
        cov.setdefault('counters', {})[k_] = v_
    if 'exhaustive' in meta:
        cov['exhaustive'] = meta['exhaustive']
    ev = {'property_id': prop, 'tier': tier, 'seed': seed, 'level': level, 'coverage': cov,
          'assumptions': meta.get('assumptions', []), 'wall_s': round(wall, 2), 'violations': len(violations)}
    evdir = os.environ.get('PV_EVIDENCE_DIR', os.path.join(HERE, 'evidence'))
    os.makedirs(evdir, exist_ok=True)
    json.dump(ev, open(os.path.join(evdir, '%s.json' % prop), 'w'), indent=1)
    print('%s %s: obligations=%d discharged=%d optional=%d/%d known-finding-obligations=%d violations=%d '
          'harness-errors=%d inconclusive=%d queries=%d solver=%.1fs wall=%.1fs exit=%d'
          % (prop, tier, n_ob, n_dis, n_opt_dis, n_opt, sum(len(v) for v in known_hits.values()),
             len(violations), len(harness), len(inconclusive), nq, st_time, wall, code))
    return code


if __name__ == '__main__':
    sys.exit(main(sys.argv[1:]))
