"""C13 Flux limiters compute the published formulas, are total and within TVD bounds."""
import itertools
import numpy as np
import pyfvtool as pf
from .. import scen, symnp
from .. import symreal as sr

NAMES = ['CHARM', 'HCUS', 'HQUICK', 'ospre', 'VanLeer', 'VanAlbada1', 'VanAlbada2', 'MinMod', 'SUPERBEE',
         'Sweby', 'Osher', 'Koren', 'smart', 'MUSCL', 'QUICK', 'UMIST']
CLIP = ['MinMod', 'SUPERBEE', 'Osher', 'Sweby', 'Koren', 'MUSCL', 'QUICK', 'UMIST', 'smart', 'VanLeer']

META = {
    'level': 'proof',
    'functions': ['utilities.fluxLimiter (16 closures + fallback)', 'advection._fsign', 'advection.convectionTvdRHS* (9 grid classes)',
                  'advection._upwind_min_max', 'advection.convectionTVDupwindRHSTerm'],
    'bounds': 'r: any real (one symbolic variable per array element); array shapes (), (1,), (3,), (2,2), (2,1,2); '
              'TVD totality: 1-D N in {1,2,3}, 2-D (2,2), 3-D (2,2,2), all 9 grid classes, limiter x field fully symbolic',
    'outside': 'float overflow at |r| ~ 1e154 and beyond (real-number model); cell counts above the bound',
    'assumptions': ['published closed forms: Sweby 1984 / Waterson-Deconinck as tabulated on en.wikipedia.org/wiki/Flux_limiter '
                    '(Osher, Sweby with beta = 1.5); value at a removable singularity = the limit (0 for HCUS at r=-2, HQUICK at r=-3)'],
    'trusted_base': ['piecewise oracle formulas in pv/props/c13.py:oracle (written from the published table)'],
}


def oracle(ctx, name, r):
    """published closed form psi(r), written independently of pyfvtool.utilities"""
    mx, mn, ab = ctx.max, ctx.min, ctx.abs
    W = ctx.where
    z = ctx.const(0)
    if name == 'CHARM':
        return W(r > 0, ctx.sdiv(r * (3 * r + 1), (r + 1) * (r + 1)), z)
    if name == 'HCUS':
        return W(r > 0, ctx.sdiv(3 * r, r + 2), z)          # 1.5 (r+|r|)/(r+2); limit 0 at r = -2
    if name == 'HQUICK':
        return W(r > 0, ctx.sdiv(4 * r, r + 3), z)          # 2 (r+|r|)/(r+3); limit 0 at r = -3
    if name == 'ospre':
        return 1.5 * (r * r + r) / (r * r + r + 1)
    if name == 'VanLeer':
        return (r + ab(r)) / (1 + ab(r))
    if name == 'VanAlbada1':
        return (r * r + r) / (r * r + 1)
    if name == 'VanAlbada2':
        return 2 * r / (r * r + 1)
    if name == 'MinMod':
        return mx(z, mn(1, r))
    if name == 'SUPERBEE':
        return mx(z, mn(2 * r, 1), mn(r, 2))
    if name == 'Osher':
        return mx(z, mn(r, 1.5))
    if name == 'Sweby':
        return mx(z, mn(1.5 * r, 1), mn(r, 1.5))
    if name == 'Koren':
        return mx(z, mn(2 * r, mn((1 + 2 * r) / 3, 2)))
    if name == 'smart':
        return mx(z, mn(2 * r, 0.25 + 0.75 * r, 4))
    if name == 'MUSCL':
        return mx(z, mn(2 * r, 0.5 * (1 + r), 2))
    if name == 'QUICK':
        return mx(z, mn(2 * r, (3 + r) / 4, 2))
    if name == 'UMIST':
        return mx(z, mn(2 * r, 0.25 + 0.75 * r, 0.75 + 0.25 * r, 2))
    raise KeyError(name)


def limiter(ctx, name):
    FL = pf.fluxLimiter(name)
    tag = 'C13/%s' % name
    r = ctx.arr('r', (1,))
    y = FL(r)
    r0, y0 = r[0], y[0]
    ctx.finite(tag + '/total', y0, note='every denominator of psi(r) non-zero for every real r')
    ctx.eq(tag + '/closedform', y0, oracle(ctx, name, r0))
    ctx.holds(tag + '/tvd_lo', ctx.Implies(r0 > 0, y0 >= 0))
    ctx.holds(tag + '/tvd_hi', ctx.Implies(r0 > 0, ctx.And(y0 <= 2 * r0, y0 <= 4)))
    if name in CLIP:
        ctx.holds(tag + '/clip_nonpos', ctx.Implies(r0 <= 0, y0 == 0))
    # psi(1) = 1 and special points, through the real closure on a concrete array element
    one = symnp.symarray(np.array([1.0])) if ctx.sym else np.array([1.0])
    ctx.eq(tag + '/psi1', FL(one)[0], 1.0)
    for pt in (-3.0, -2.0, -1.0, 0.0, 0.5, 2.0):
        a = symnp.symarray(np.array([pt])) if ctx.sym else np.array([pt])
        ctx.finite(tag + '/finite_at/%g' % pt, FL(a)[0])
        pr = ctx.const(pt)
        ctx.eq(tag + '/value_at/%g' % pt, FL(a)[0], oracle(ctx, name, pr) if not (
            (name == 'HCUS' and pt == -2.0) or (name == 'HQUICK' and pt == -3.0)) else 0.0)


def elementwise(ctx, name, shape):
    FL = pf.fluxLimiter(name)
    tag = 'C13/%s/elementwise/%s' % (name, 'x'.join(map(str, shape)) or 'scalar')
    A = ctx.arr('A', shape)
    Y = FL(A)
    ctx.fact(tag + '/shape', tuple(np.shape(Y)) == tuple(shape), 'result shape %s' % (np.shape(Y),))
    for idx in itertools.product(*[range(s) for s in shape]):
        e = A[idx] if shape else (A[()] if isinstance(A, np.ndarray) else A)
        single = (symnp.symarray(np.array([0.0])) if ctx.sym else np.array([0.0]))
        single[0] = e
        ctx.same_term(tag + '/' + ('_'.join(map(str, idx)) or '0'), Y[idx] if shape else (Y[()] if isinstance(Y, np.ndarray) else Y), FL(single)[0])


def float_points(ctx, name):
    """float64 supplement on the property's own point set (NOT a solver verdict: exact real arithmetic cannot see overflow or
    cancellation): the real closure, unpatched NumPy, on a dense grid over [-1e3, 1e3], +-10^k for k = -100..100 and the rationals
    where numerators / denominators of the formulas vanish: finite, inside the TVD region, zero for r <= 0 (clipping family),
    psi(1) == 1, and equal to the independently written closed form to 1e-12."""
    import warnings
    FL = pf.fluxLimiter(name)
    pts = np.concatenate([np.linspace(-1e3, 1e3, 20001), [sg * 10.0 ** k for k in range(-100, 101) for sg in (1, -1)],
                          [-4, -3, -2, -1, -0.5, -1 / 3, -0.25, 0, 0.25, 1 / 3, 0.5, 1, 1.5, 2, 3, 4, 5]])
    with warnings.catch_warnings():
        warnings.simplefilter('ignore')
        y = np.asarray(FL(pts.copy()), dtype=float)
    tag = 'C13/%s/float' % name
    bad = pts[~np.isfinite(y)]
    ctx.fact(tag + '/finite', bad.size == 0, 'non-finite at r = %s' % bad[:4])
    pos = pts > 0
    yy, rr = y[pos], pts[pos]
    out = rr[(yy < -1e-12) | (yy > np.minimum(2 * rr, 4.0) * (1 + 1e-12))]
    ctx.fact(tag + '/tvd_region', out.size == 0, 'outside 0 <= psi <= min(2r, 4) at r = %s' % out[:4])
    if name in CLIP:
        nz = pts[(pts <= 0) & (y != 0)]
        ctx.fact(tag + '/clip_nonpos', nz.size == 0, 'non-zero for r <= 0 at r = %s' % nz[:4])
    one = float(np.asarray(FL(np.array([1.0])))[0])
    ctx.fact(tag + '/psi1', abs(one - 1.0) <= 1e-15, 'psi(1) = %r' % one)

    class _F:       # float stand-in for the Ctx helpers the oracle uses
        max = staticmethod(lambda *a: max(a)); min = staticmethod(lambda *a: min(a)); abs = staticmethod(abs)
        where = staticmethod(lambda c, a, b: a if c else b); const = staticmethod(float)
        sdiv = staticmethod(lambda a, b: a / b if b != 0 else 0.0)
    ref = np.array([float(oracle(_F, name, float(r))) for r in pts])
    dev = pts[np.abs(y - ref) > 1e-12 * np.maximum(1.0, np.abs(ref))]
    ctx.fact(tag + '/closedform', dev.size == 0, 'differs from the closed form at r = %s' % dev[:4])


def fallback(ctx):
    import io, contextlib
    with contextlib.redirect_stdout(io.StringIO()):
        FL = pf.fluxLimiter('no-such-limiter')
    r = ctx.arr('r', (1,))
    ctx.eq('C13/fallback/equals_SUPERBEE', FL(r)[0], pf.fluxLimiter('SUPERBEE')(r)[0])
    ctx.eq('C13/fallback/closedform', FL(r)[0], oracle(ctx, 'SUPERBEE', r[0]))


def tvd_total(ctx, g, dims, name):
    """the TVD correction has no vanishing denominator for any field (equal / opposite successive
    differences are just points of the symbolic domain)"""
    m, fs = scen.mesh(ctx, g, dims)
    phi = scen.cellvar(ctx, m, 'p', full=True)
    u = scen.facevar(ctx, m, 'u')
    FL = pf.fluxLimiter(name)
    rhs = pf.convectionTVDupwindRHSTerm(u, phi, FL)
    tag = 'C13/tvd/%s/%s/%s' % (g, 'x'.join(map(str, dims)), name)
    ctx.finite_all(tag + '/finite', scen.flat(rhs))


def scenarios(tier):
    T = []
    for n in NAMES:
        T.append({'name': 'limiter/%s' % n, 'fn': 'pv.props.c13:limiter', 'params': {'name': n}, 'validate': 4, 'timeout': 30,
                  'crosscheck': True})
        shapes = [(), (3,), (2, 2), (2, 1, 2)]
        for sh in shapes:
            T.append({'name': 'elementwise/%s/%s' % (n, 'x'.join(map(str, sh)) or 'scalar'), 'fn': 'pv.props.c13:elementwise',
                      'params': {'name': n, 'shape': list(sh)}, 'validate': 1})
    T.append({'name': 'fallback', 'fn': 'pv.props.c13:fallback', 'params': {}, 'validate': 2})
    for n in NAMES:
        T.append({'name': 'float_points/%s' % n, 'fn': 'pv.props.c13:float_points', 'params': {'name': n}, 'validate': 1, 'nostubs': True})
    lim_q = ['SUPERBEE', 'VanLeer', 'HCUS', 'CHARM', 'ospre', 'MinMod']
    for g in scen.ALL:
        nd = scen.ndim(g)
        dl = {1: [[1], [3]], 2: [[2, 2], [2, 3]], 3: [[2, 2, 2], [1, 2, 3]]}[nd]
        if tier == 'thorough':
            dl = {1: [[1], [2], [3], [4]], 2: [[2, 2], [3, 2], [1, 3]], 3: [[2, 2, 2], [3, 2, 2], [1, 2, 3]]}[nd]
        for dims in dl:
            for n in (NAMES if tier == 'thorough' or nd == 1 else (lim_q if dims == dl[0] else lim_q[:2])):
                T.append({'name': 'tvd/%s/%s/%s' % (g, 'x'.join(map(str, dims)), n), 'fn': 'pv.props.c13:tvd_total',
                          'params': {'g': g, 'dims': dims, 'name': n}, 'validate': 1, 'timeout': 30})
    return T
