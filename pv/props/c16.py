"""C16 Unsupported requests fail loudly with the documented error, valid ones never do.

There is no arithmetic here: the request space is finite and is enumerated completely through the real
constructors / properties (degenerate use of the technique: every case is one concrete path; the table of
expected outcomes is derived from the coordinate system of each grid class)."""
import itertools
import numpy as np
import pyfvtool as pf
from .. import scen

META = {
    'level': 'exploration',
    'exhaustive': True,
    'functions': ['mesh.* constructors (9 classes, arities 0..7)', 'mesh.CellProp label properties', 'face.FaceVariable component properties (get/set)',
                  'boundary.BoundaryFace.__init__', 'boundary.boundaryConditionsTerm* (radial periodic)', 'cell.CellVariable.__init__ (shape families)',
                  'pdesolver.solvePDE (term kinds)'],
    'bounds': '9 grid classes x 6 coordinate labels (3 holders) x 6 component labels (get and set) x every subset of side periodic flags '
              'x shape families dims+k, k in {-1,0,1,2,3} per axis, rank changes and size-1 arrays x constructor arities 0..7 x N in {1,2,3} per axis '
              'x 10 non-term objects; enumerated completely (exhaustive: true)',
    'outside': 'N above 3 ("every N >= 1" is covered for N in {1,2,3}); exception messages (only the type is asserted)',
    'assumptions': ['expected outcome table derived from the coordinate system of each class (pv/scen.py:GRIDS labels)'],
    'trusted_base': [],
    'rule': 'one case = one concrete request through the real API with its expected outcome (exception type or success); distinct by '
            '(class, request kind, argument); non-trivial = the request reaches library code that must decide',
}

COMP = {'x': 'xvalue', 'y': 'yvalue', 'z': 'zvalue', 'r': 'rvalue', 'theta': 'thetavalue', 'phi': 'phivalue'}
SLOT = ('_xvalue', '_yvalue', '_zvalue')


def _outcome(f):
    try:
        f()
        return 'ok'
    except Exception as e:      # noqa
        return type(e).__name__


def _faces(g, dims):
    fs = []
    for ax, n in enumerate(dims):
        hi = 1.0
        fs.append(np.linspace(0.0, hi, n + 1) ** 1.5 + (0.0 if ax == 0 else 0.1))
    return fs


def labels(ctx, g):
    cls, nd, cs, labs = scen.GRIDS[g]
    for dims in itertools.product((1, 2), repeat=nd):
        m = cls(*_faces(g, dims))
        tag = 'C16/%s/%s' % (g, 'x'.join(map(str, dims)))
        for hn in ('cellcenters', 'facecenters', 'cellsize'):
            h = getattr(m, hn)
            for lab in COMP:
                got = _outcome(lambda: getattr(h, lab))
                want = 'ok' if lab in labs else 'AttributeError'
                ctx.fact('%s/coord_get/%s/%s' % (tag, hn, lab), got == want, 'got %s, expected %s' % (got, want))
                if lab in labs:
                    ctx.fact('%s/coord_maps/%s/%s' % (tag, hn, lab), getattr(h, lab) is getattr(h, ('_x', '_y', '_z')[labs.index(lab)]))
                got = _outcome(lambda: setattr(h, lab, np.zeros(3)))
                ctx.fact('%s/coord_set/%s/%s' % (tag, hn, lab), got == 'AttributeError', 'writing a coordinate label: got %s' % got)
        F = pf.FaceVariable(m, 1.0)
        for lab, prop in COMP.items():
            want = 'ok' if lab in labs else 'AttributeError'
            got = _outcome(lambda: getattr(F, prop))
            ctx.fact('%s/comp_get/%s' % (tag, prop), got == want, 'got %s, expected %s' % (got, want))
            if lab in labs:
                ctx.fact('%s/comp_maps/%s' % (tag, prop), getattr(F, prop) is getattr(F, SLOT[labs.index(lab)]))
            F2 = pf.FaceVariable(m, 1.0)
            before = [getattr(F2, s) for s in SLOT]
            new = np.full(np.shape(getattr(F2, SLOT[labs.index(lab)] if lab in labs else '_xvalue')), 7.0)
            got = _outcome(lambda: setattr(F2, prop, new))
            ctx.fact('%s/comp_set/%s' % (tag, prop), got == want, 'got %s, expected %s' % (got, want))
            if lab in labs and got == 'ok':
                ctx.fact('%s/comp_set_target/%s' % (tag, prop), getattr(F2, SLOT[labs.index(lab)]) is new)
            if lab not in labs:
                ctx.fact('%s/comp_set_no_effect/%s' % (tag, prop), all(getattr(F2, s) is b for s, b in zip(SLOT, before)),
                         'a foreign component label was written through')


def arity(ctx, g):
    cls, nd, cs, labs = scen.GRIDS[g]
    tag = 'C16/%s/arity' % g
    faces = _faces(g, [2] * nd)
    NL = [2] * nd + [1.0] * nd
    m_ok = cls(*faces)
    direct = (m_ok.dims, m_ok.cellsize, m_ok.cellcenters, m_ok.facecenters, m_ok.corners, m_ok.edges)
    for k in range(0, 8):
        for style in ('arrays', 'numbers'):
            args = tuple((faces * 8)[:k]) if style == 'arrays' else tuple(([2] * 4 + [1.0] * 4)[:k])
            if style == 'numbers' and k == 2 * nd:
                args = tuple(NL)
            valid = (style == 'arrays' and k == nd) or (style == 'numbers' and k == 2 * nd)
            if (style == 'numbers' and k == nd) or (style == 'arrays' and k == 2 * nd):
                continue        # right arity, wrong argument kind: not a claim of the property
            got = _outcome(lambda: cls(*args))
            if valid:
                ctx.fact('%s/%s/%d' % (tag, style, k), got == 'ok', 'documented form rejected: %s' % got)
            elif k == 6:
                # the 6-argument "direct" form exists for every class; a 6-tuple of the wrong kind need not be diagnosed
                ctx.fact('%s/%s/%d' % (tag, style, k), got in ('ok', 'TypeError', 'AttributeError'), 'got %s' % got)
            else:
                ctx.fact('%s/%s/%d' % (tag, style, k), got == 'TypeError', 'wrong arity %d (%s): got %s, expected TypeError' % (k, style, got))
    got = _outcome(lambda: cls(*direct))
    ctx.fact(tag + '/direct_form', got == 'ok', 'got %s' % got)


def forms(ctx, g):
    """every documented constructor form and every term kind is accepted for N in {1,2,3} per axis (concrete solve)"""
    cls, nd, cs, labs = scen.GRIDS[g]
    for dims in itertools.product((1, 2, 3), repeat=nd):
        if nd == 3 and sum(dims) > 6:
            continue
        tag = 'C16/%s/forms/%s' % (g, 'x'.join(map(str, dims)))

        def run(mesh_args):
            m = cls(*mesh_args)
            phi = pf.CellVariable(m, 1.0)
            phi.BCs.left.fixedValue(2.0)
            D = pf.FaceVariable(m, 1.0); u = pf.FaceVariable(m, 0.3)
            terms = [pf.transientTerm(phi, 0.1, 1.0), -pf.diffusionTerm(D), pf.convectionUpwindTerm(u), pf.convectionTerm(u),
                     pf.linearSourceTerm(pf.CellVariable(m, 0.5)), pf.constantSourceTerm(pf.CellVariable(m, 1.0)),
                     pf.convectionTVDupwindRHSTerm(u, phi, pf.fluxLimiter('SUPERBEE')), pf.divergenceTerm(u)]
            pf.solvePDE(phi, terms)
            pf.solveExplicitPDE(phi, 0.01, -pf.divergenceTerm(u * pf.upwindMean(phi, u)))
            for f in (pf.linearMean, pf.arithmeticMean, pf.geometricMean, pf.harmonicMean):
                f(phi)
            pf.gradientTerm(phi); pf.cellLocations(m); pf.faceLocations(m); phi.plotprofile(); phi.domainIntegral()
            assert np.all(np.isfinite(phi.value))
        got = _outcome(lambda: run(_faces(g, dims)))
        ctx.fact(tag + '/faces_form', got == 'ok', 'got %s' % got)

        def fv_forms():
            # the three documented FaceVariable forms: scalar, one value per component, one array per component
            m = cls(*_faces(g, dims))
            shp = scen.face_shapes(dims)
            comps = [2.0, -3.0, 5.0][:nd]
            a = pf.FaceVariable(m, 7.0)
            b = pf.FaceVariable(m, comps)
            arrs = [np.full(sh, c) for sh, c in zip(shp, comps)] + [np.array([])] * (3 - nd)
            c3 = pf.FaceVariable(m, *arrs)
            for ax in range(nd):
                va, vb, vc = (np.asarray(scen.fcomp(v, ax)) for v in (a, b, c3))
                assert va.shape == tuple(shp[ax]) and vb.shape == tuple(shp[ax]) and vc.shape == tuple(shp[ax]), (ax, va.shape, vb.shape)
                assert np.all(va == 7.0) and np.all(vb == comps[ax]) and np.all(vc == comps[ax]), ax
            # and they are usable as coefficients
            pf.convectionTerm(b); pf.diffusionTerm(a); pf.divergenceTerm(c3)
        got = _outcome(fv_forms)
        ctx.fact(tag + '/facevariable_forms', got == 'ok', 'got %s' % got)
        got = _outcome(lambda: run(list(dims) + [1.0] * nd))
        ctx.fact(tag + '/NL_form', got == 'ok', 'got %s' % got)


def periodic_flags(ctx, g):
    cls, nd, cs, labs = scen.GRIDS[g]
    m = cls(*_faces(g, [2] * nd))
    sides = scen.sides_of(g)
    tag = 'C16/%s/periodic' % g
    for r in range(0, len(sides) + 1):
        for sub in itertools.combinations(sides, r):
            def run():
                BC = pf.BoundaryConditions(m)
                for sd in sub:
                    getattr(BC, sd).periodic = True
                phi = pf.CellVariable(m, 1.0, BC)
                pf.solvePDE(phi, [pf.linearSourceTerm(pf.CellVariable(m, 1.0)), pf.constantSourceTerm(pf.CellVariable(m, 1.0))])
            radial_per = scen.radial(g) and any(sd in ('left', 'right') for sd in sub)
            got = _outcome(run)
            want = 'ValueError' if radial_per else 'ok'
            ctx.fact('%s/%s' % (tag, '+'.join(sub) or 'none'), got == want, 'got %s, expected %s' % (got, want))
            # the dedicated builder must refuse as well
            def run2():
                BC = pf.BoundaryConditions(m)
                for sd in sub:
                    getattr(BC, sd).periodic = True
                pf.boundaryConditionsTerm(BC)
            got2 = _outcome(run2)
            ctx.fact('%s/term/%s' % (tag, '+'.join(sub) or 'none'), got2 == want, 'got %s, expected %s' % (got2, want))


def shapes(ctx, g):
    cls, nd, cs, labs = scen.GRIDS[g]
    for dims in ([(2,), (3,)] if nd == 1 else ([(2, 3)] if nd == 2 else [(2, 3, 2)])):
        m = cls(*_faces(g, dims))
        tag = 'C16/%s/shapes/%s' % (g, 'x'.join(map(str, dims)))
        for ks in itertools.product((-1, 0, 1, 2, 3), repeat=nd):
            shp = tuple(d + k for d, k in zip(dims, ks))
            if any(s <= 0 for s in shp):
                continue
            valid = all(k == 0 for k in ks) or all(k == 2 for k in ks) or int(np.prod(shp)) == 1
            got = _outcome(lambda: pf.CellVariable(m, np.ones(shp)))
            ctx.fact('%s/%s' % (tag, 'x'.join(map(str, shp))), got == ('ok' if valid else 'ValueError'),
                     'shape %s: got %s, expected %s' % (shp, got, 'ok' if valid else 'ValueError'))
        # rank changes
        for shp in [(int(np.prod(dims)),)] + ([tuple(dims) + (1,), (1,) + tuple(dims)]):
            if tuple(shp) == tuple(dims):
                continue
            got = _outcome(lambda: pf.CellVariable(m, np.ones(shp)))
            ctx.fact('%s/rank/%s' % (tag, 'x'.join(map(str, shp))), got == 'ValueError', 'shape %s: got %s' % (shp, got))
        for val in (1.5, np.float64(2.0), np.array([3.0]), np.array(4.0)):
            got = _outcome(lambda: pf.CellVariable(m, val))
            ctx.fact('%s/scalar/%s' % (tag, type(val).__name__ + str(np.shape(val))), got == 'ok', 'scalar form rejected: %s' % got)


def term_objects(ctx, g):
    cls, nd, cs, labs = scen.GRIDS[g]
    m = cls(*_faces(g, [2] * nd))
    n = int(np.prod([4] * nd))
    tag = 'C16/%s/terms' % g
    M = pf.linearSourceTerm(pf.CellVariable(m, 1.0)); v = pf.constantSourceTerm(pf.CellVariable(m, 1.0))
    bad = {'array3d': np.zeros((2, 2, 2)), 'tuple_swapped': (v, M), 'tuple_two_vectors': (v, v), 'tuple_len3': (M, v, v), 'tuple_len1': (M,),
           'string': 'diffusion', 'none': None, 'float': 1.0, 'list_pair': [M, v], 'array0d': np.array(1.0)}
    for nm, obj in bad.items():
        got = _outcome(lambda: pf.solvePDE(pf.CellVariable(m, 1.0), [M, v, obj]))
        ctx.fact('%s/%s' % (tag, nm), got == 'TypeError', 'non-term object %s: got %s, expected TypeError' % (nm, got))
    for nm, obj in {'matrix': M, 'vector': v, 'pair': (M, v), 'neg_matrix': -M, 'neg_vector': -v, 'scaled': 2.0 * M}.items():
        got = _outcome(lambda: pf.solvePDE(pf.CellVariable(m, 1.0), [M, v, obj]))
        ctx.fact('%s/valid/%s' % (tag, nm), got == 'ok', 'valid term kind rejected: %s' % got)
    for nm, args in {'float_a': (1.0, np.zeros(1), np.zeros(1)), 'list_b': (np.zeros(1), [0.0], np.zeros(1)), 'none_c': (np.zeros(1), np.zeros(1), None),
                     'int': (1, 0, 0)}.items():
        got = _outcome(lambda: pf.boundary.BoundaryFace(*args))
        ctx.fact('%s/boundaryface/%s' % (tag, nm), got == 'TypeError', 'non-array BC coefficient: got %s' % got)
    got = _outcome(lambda: pf.boundary.BoundaryFace(np.ones(1), np.zeros(1), np.zeros(1)))
    ctx.fact(tag + '/boundaryface/arrays', got == 'ok')


def scenarios(tier):
    T = []
    for g in scen.ALL:
        for fn in ('labels', 'arity', 'forms', 'periodic_flags', 'shapes', 'term_objects'):
            T.append({'name': '%s/%s' % (fn, g), 'fn': 'pv.props.c16:%s' % fn, 'params': {'g': g}, 'validate': 1, 'nostubs': True})
    return T
