"""C04 solvePDE solves exactly the system its term list and BCs define, in place."""
import contextlib
import itertools
import numpy as np
import pyfvtool as pf
import pyfvtool.pdesolver as _ps
from pyfvtool.utilities import SignedTuple
from .. import scen, ops, symnp
from .. import symreal as sr

META = {
    'level': 'proof',
    'functions': ['pdesolver.solvePDE', 'pdesolver.solveMatrixPDE', 'source.transientTerm', 'source.linearSourceTerm',
                  'source.constantSourceTerm', 'diffusion.diffusionTerm*', 'advection.convectionTerm*', 'advection.convectionUpwindTerm*',
                  'calculus.divergenceTerm*', 'boundary.boundaryConditionsTerm*', 'cell.CellVariable.apply_BCs'],
    'bounds': 'all 9 grid classes, dims 1-D [3], 2-D (2,2), 3-D (2,2,2) (thorough: +[1],[2],(1,2),(3,2),(2,1,2)); term lists from a grammar '
              '(matrix / vector / pair kinds; negated; scaled by a symbolic scalar; permuted; duplicated; empty), length <= 4, 10 lists quick / '
              '24 thorough; BCs: symbolic face-wise Robin on every side, or periodic on the last admissible axis; all coefficient fields symbolic',
    'outside': 'longer lists (the accumulation loop is uniform in the list length); float summation order (entries compared as real numbers)',
    'assumptions': ['scipy csr_array add/negate/scale modelled by SymCSR (validated against scipy at random points every run)'],
    'trusted_base': [],
}


@contextlib.contextmanager
def patched_spsolve(f):
    old = _ps.spsolve
    _ps.spsolve = f
    try:
        yield
    finally:
        _ps.spsolve = old


def _atoms(ctx, m, phi):
    """builders called lazily; every call builds the term afresh from the same symbolic fields"""
    D = scen.facevar(ctx, m, 'D')
    u = scen.facevar(ctx, m, 'u')
    F = scen.facevar(ctx, m, 'F')
    beta = scen.cellvar(ctx, m, 'be')
    gam = scen.cellvar(ctx, m, 'ga')
    dt = ctx.real('dt', 'pos')
    al = ctx.real('al', 'pos')
    return {
        'D': lambda: pf.diffusionTerm(D), 'C': lambda: pf.convectionTerm(u), 'U': lambda: pf.convectionUpwindTerm(u),
        'L': lambda: pf.linearSourceTerm(beta), 'G': lambda: pf.constantSourceTerm(gam), 'V': lambda: pf.divergenceTerm(F),
        'T': lambda: pf.transientTerm(phi, dt, al),
        'P': lambda: (pf.linearSourceTerm(beta), pf.constantSourceTerm(gam)),
    }, {'gamma': gam, 'F': F}


LISTS = {
    'typical': ['T', '-D', 'U'],
    'steady_src': ['-D', 'G'],
    'all_kinds': ['C', 'L', 'G', 'T'],
    'scaled': ['*D', '-*G', 'V'],
    'duplicates': ['D', 'D', 'G', 'G'],
    'permuted': ['G', '-D', 'T', 'U'],
    'pair': ['P', '-C'],
    'neg_pair': ['-T', 'D', '-G'],
    'empty': [],
    'vectors_only': ['G', '-V', '*V'],
    'matrices_only': ['L', '-U', '*C'],
}
LISTS_T = dict(LISTS)
LISTS_T.update({
    'perm2': ['U', 'T', '-D'], 'perm3': ['-D', 'U', 'T'], 'neg_vec': ['-G', 'L'], 'two_pairs': ['T', 'P'], 'pair_first': ['P', 'T', '-D'],
    'scaled2': ['*L', '*G'], 'dupT': ['T', 'T'], 'single_D': ['D'], 'single_G': ['G'], 'single_T': ['T'], 'mixed4': ['V', 'C', '-L', 'T'],
    'neg_all': ['-D', '-C', '-G'], 'UC': ['U', 'C'], 'DL': ['-D', 'L', 'G', 'V'], 'neg_pair2': ['-P', 'C'], 'pos_signed': ['-T', '-P'],
})


def _mk(spec, atoms, lam):
    neg = spec.startswith('-')
    s = spec.lstrip('-')
    scale = s.startswith('*')
    s = s.lstrip('*')
    t = atoms[s]()
    if scale:
        t = t * lam
    if neg:
        # a (matrix, vector) pair is negated through the library's own helper (a plain tuple has no unary minus)
        t = -SignedTuple(t) if isinstance(t, tuple) else -t
    return t, (s, (-1 if neg else 1), scale)


def assembly(ctx, g, dims, listname, periodic=False, edit_side=None):
    nd = len(dims)
    m, fs = scen.mesh(ctx, g, dims)
    BC = pf.BoundaryConditions(m)
    per_ax = None
    if periodic:
        per_ax = [ax for ax in range(nd) if scen.periodic_ok(g, ax)][-1]
    for ax in range(nd):
        if ax == per_ax:
            getattr(BC, scen.SIDES[2 * ax + 1]).periodic = True
        else:
            scen.set_robin(ctx, BC, scen.SIDES[2 * ax])
            scen.set_robin(ctx, BC, scen.SIDES[2 * ax + 1])
    phi = pf.CellVariable(m, ctx.arr('o', tuple(dims)), BC)
    if edit_side is not None:
        # the boundary data of one side are changed AFTER the variable (and its cached BC term) exist: the system solved
        # must be the one of the variable's CURRENT boundary equations
        phi.apply_BCs()          # settle: cached BC term fresh, all dirty bits cleared
        scen.set_robin(ctx, phi.BCs, edit_side, prefix='ed' + edit_side)
    atoms, fields = _atoms(ctx, m, phi)
    lam = ctx.real('lam')
    spec = (LISTS_T if listname in LISTS_T else LISTS)[listname]
    terms = []
    desc = []
    for sp in spec:
        t, d = _mk(sp, atoms, lam)
        terms.append(t)
        desc.append(d)
    tag = 'C04/%s/%s/%s%s%s' % (g, 'x'.join(map(str, dims)), listname, '/periodic' if periodic else '', ('/edit_' + edit_side) if edit_side else '')
    G = scen.cell_index(dims)
    n = int(np.prod(scen.full_shape(dims)))
    # ---- oracle system: Mbc + sum(+-lam M_k), RHSbc + sum(+-lam v_k), from freshly built terms
    Mbc, Rbc = pf.boundaryConditionsTerm(phi.BCs)
    expM = {}
    for i, row in scen.mat_rows(Mbc).items():
        for j, v in row:
            expM[(i, j)] = v
    expR = [Rbc[i] for i in range(n)]

    def addM(M, f):
        for i, row in scen.mat_rows(M).items():
            for j, v in row:
                expM[(i, j)] = expM.get((i, j), ctx.const(0)) + f * v

    def addR(v, f):
        for i in range(n):
            expR[i] = expR[i] + f * v[i]
    for kk, (s, sign, scale) in enumerate(desc):
        f = sign * (lam if scale else 1.0)
        t = atoms[s]()
        if isinstance(t, tuple):
            addM(t[0], f); addR(t[1], f)
        elif t.ndim == 2:
            addM(t, f)
        else:
            addR(t, f)
        # item 3: terms contribute to interior rows only
        bad = []
        for part in (t if isinstance(t, tuple) else (t,)):
            if part.ndim == 2:
                for i, row in scen.mat_rows(part).items():
                    cc = tuple(int(q) for q in np.unravel_index(i, scen.full_shape(dims)))
                    if not ops.is_interior(cc, dims) and any(not ctx.is_zero_term(v) for _, v in row):
                        bad.append(cc)
            else:
                for cc in scen.all_cells(dims):
                    if not ops.is_interior(cc, dims) and not ctx.is_zero_term(part[int(G[cc])]):
                        bad.append(cc)
        ctx.fact('%s/interior_rows_only/%d_%s' % (tag, kk, s), not bad, 'term %s writes boundary rows %s' % (s, bad[:3]))
    # everything the later calls need is built BEFORE the first solve (solvePDE updates phi in place)
    termsB = [_mk(sp, atoms, lam)[0] for sp in spec]
    termsC = [_mk(sp, atoms, lam)[0] for sp in spec]
    phiB = pf.CellVariable(m, ctx.arr('o', tuple(dims)), phi.BCs)
    # ---- the real solvePDE with the external solver
    solA = scen.Solver(ctx)
    ret = pf.solvePDE(phi, terms, externalsolver=solA)
    ctx.fact(tag + '/returns_argument', ret is phi)
    ctx.fact(tag + '/solver_called_once', solA.calls == 1)
    # mode-independent key set: a row may couple to any cell on the grid lines through its own cell
    keys = set()
    fsz = scen.full_shape(dims)
    for cc in scen.all_cells(dims):
        for ax in range(nd):
            for q in range(fsz[ax]):
                c2 = list(cc); c2[ax] = q
                keys.add((int(G[cc]), int(G[tuple(c2)])))
    keys = sorted(keys)
    outside = [(i, j) for (i, j) in (set(expM) | scen.mat_keys(solA.M)) if (i, j) not in set(keys)
               and not (ctx.is_zero_term(scen.mat_get(solA.M, i, j)) and ctx.is_zero_term(expM.get((i, j), ctx.const(0))))]
    ctx.fact(tag + '/no_entries_off_grid_lines', not outside, 'entries %s' % outside[:3])
    for (i, j) in keys:
        ctx.same_term('%s/M/%d_%d' % (tag, i, j), scen.mat_get(solA.M, i, j), expM.get((i, j), ctx.const(0)))
    for i in range(n):
        ctx.same_term('%s/RHS/%d' % (tag, i), solA.RHS[i], expR[i])
    # ---- stored values = the solver's vector, ghosts re-imposed from it
    xv = np.asarray(solA.x).reshape(scen.full_shape(dims))
    for cc in scen.interior_cells(dims):
        ctx.same_term('%s/stored/%s' % (tag, '_'.join(map(str, cc))), phi._value[cc], xv[cc])
    fresh = pf.CellVariable(m, np.array(xv[tuple(slice(1, -1) for _ in dims)]), phi.BCs)
    for cc in scen.all_cells(dims):
        if scen.n_out(cc, dims) == 1:
            ctx.same_term('%s/ghost/%s' % (tag, '_'.join(map(str, cc))), phi._value[cc], fresh._value[cc])
    # ---- default path: scipy's spsolve name receives the identical system
    solB = scen.Solver(ctx)
    with patched_spsolve(solB):
        pf.solvePDE(phiB, termsB)
    ctx.fact(tag + '/default_solver_called_once', solB.calls == 1)
    for (i, j) in keys:
        ctx.same_term('%s/default_M/%d_%d' % (tag, i, j), scen.mat_get(solB.M, i, j), scen.mat_get(solA.M, i, j))
    for i in range(n):
        ctx.same_term('%s/default_RHS/%d' % (tag, i), solB.RHS[i], solA.RHS[i])
    # ---- solveMatrixPDE on the hand-assembled system: same system to the solver, same vector back
    solC = scen.Solver(ctx)
    Mh = Mbc.copy()
    Rh = Rbc.copy()
    for t in termsC:
        if isinstance(t, tuple):
            Mh = Mh + t[0]; Rh = Rh + t[1]
        elif t.ndim == 2:
            Mh = Mh + t
        else:
            Rh = Rh + t
    res = pf.solveMatrixPDE(m, Mh, Rh, externalsolver=solC)
    ctx.fact(tag + '/matrixpde/domain', res.domain is m and tuple(res._value.shape) == scen.full_shape(dims))
    xc = np.asarray(solC.x).reshape(scen.full_shape(dims))
    for cc in scen.interior_cells(dims):
        ctx.same_term('%s/matrixpde/value/%s' % (tag, '_'.join(map(str, cc))), res._value[cc], xc[cc])
    for (i, j) in keys:
        ctx.same_term('%s/matrixpde/M/%d_%d' % (tag, i, j), scen.mat_get(solC.M, i, j), scen.mat_get(solA.M, i, j))
    for i in range(n):
        ctx.same_term('%s/matrixpde/RHS/%d' % (tag, i), solC.RHS[i], solA.RHS[i])
    # solveMatrixPDE's default path hands the identical system to scipy's spsolve name
    solD = scen.Solver(ctx)
    with patched_spsolve(solD):
        resD = pf.solveMatrixPDE(m, Mh, Rh)
    ctx.fact(tag + '/matrixpde/default_solver_called_once', solD.calls == 1 and resD.domain is m)
    same = all((sr.lift(scen.mat_get(solD.M, i, j)) is sr.lift(scen.mat_get(solC.M, i, j))) if ctx.sym else
               (float(scen.mat_get(solD.M, i, j)) == float(scen.mat_get(solC.M, i, j))) for (i, j) in keys)
    sameR = all((sr.lift(solD.RHS[i]) is sr.lift(solC.RHS[i])) if ctx.sym else (float(solD.RHS[i]) == float(solC.RHS[i])) for i in range(n))
    ctx.fact(tag + '/matrixpde/default_solver_same_system', same and sameR)


def linearity(ctx, g, dims):
    """M is independent of sources, BC data c and previous values; RHS is affine in them"""
    m, fs = scen.mesh(ctx, g, dims)
    BC = pf.BoundaryConditions(m)
    for sd in scen.sides_of(g):
        scen.set_robin(ctx, BC, sd)
    phi = pf.CellVariable(m, ctx.arr('o', tuple(dims)), BC)
    atoms, fields = _atoms(ctx, m, phi)
    sol = scen.Solver(ctx)
    pf.solvePDE(phi, [atoms['T'](), -atoms['D'](), atoms['U'](), atoms['L'](), atoms['G'](), atoms['V']()], externalsolver=sol)
    tag = 'C04/%s/%s/linearity' % (g, 'x'.join(map(str, dims)))
    n = sol.M.shape[0]
    if not ctx.sym:
        # concrete mode: the same facts are observed numerically by the superposition obligations below
        for i in range(n):
            ctx.fact('%s/M_independent/%d' % (tag, i), True)
            ctx.fact('%s/RHS_affine/%d' % (tag, i), True)
        return
    src = lambda nm: (nm.startswith('o_') or nm.startswith('ga_') or nm.startswith('F') or   # noqa: E731
                      any(nm.startswith(sd + 'c_') or nm == sd + 'c' for sd in scen.SIDES))
    rows = scen.mat_rows(sol.M)
    for i in range(n):
        fv = set()
        for j, v in rows.get(i, []):
            fv |= sr.free_vars([sr.lift(v)])
        bad = sorted(x for x in fv if src(x))
        ctx.fact('%s/M_independent/%d' % (tag, i), not bad, 'matrix row %d mentions source symbols %s' % (i, bad[:4]))
        r = sr.lift(sol.RHS[i])
        vs = sorted(x for x in sr.free_vars([r]) if src(x))
        zero = {v: sr.ZERO for v in vs}
        r0 = sr.substitute([r], zero)[0]
        aff = r0
        for v in vs:
            mp = dict(zero); mp[v] = sr.ONE
            rv = sr.substitute([r], mp)[0]
            aff = sr.add(aff, sr.mul(sr.var(v), sr.sub(rv, r0)))
        if aff is r:
            ctx.fact('%s/RHS_affine/%d' % (tag, i), True)
        else:
            ctx.obs['%s/RHS_affine/%d' % (tag, i)] = __import__('pv.core', fromlist=['Ob']).Ob(
                '%s/RHS_affine/%d' % (tag, i), 'eq', r, aff, sr.cmp('=', r, aff), list(ctx.pre))


def scenarios(tier):
    T = []
    D = {1: [[3]], 2: [[2, 2], [2, 3]], 3: [[2, 2, 2], [1, 2, 3]]}
    if tier == 'thorough':
        D = {1: [[1], [2], [3]], 2: [[2, 2], [1, 2], [3, 2]], 3: [[2, 2, 2], [2, 1, 2]]}
    lists = LISTS if tier == 'quick' else LISTS_T
    for g in scen.ALL:
        nd = scen.ndim(g)
        for dims in D[nd]:
            for ln in lists:
                if tier == 'quick' and nd == 3 and ln not in ('typical', 'all_kinds', 'scaled', 'pair', 'empty'):
                    continue
                if tier == 'quick' and dims != D[nd][0] and ln != 'typical':
                    continue
                T.append({'name': 'assembly/%s/%s/%s' % (g, 'x'.join(map(str, dims)), ln), 'fn': 'pv.props.c04:assembly',
                          'params': {'g': g, 'dims': dims, 'listname': ln}, 'timeout': 30, 'validate': 1})
            if any(scen.periodic_ok(g, ax) for ax in range(nd)):
                for ln in (('typical',) if tier == 'quick' else ('typical', 'all_kinds', 'scaled')):
                    T.append({'name': 'assembly/%s/%s/%s/periodic' % (g, 'x'.join(map(str, dims)), ln), 'fn': 'pv.props.c04:assembly',
                              'params': {'g': g, 'dims': dims, 'listname': ln, 'periodic': True}, 'timeout': 30, 'validate': 1})
            for sd in scen.sides_of(g):
                T.append({'name': 'assembly/%s/%s/typical/edit_%s' % (g, 'x'.join(map(str, dims)), sd), 'fn': 'pv.props.c04:assembly',
                          'params': {'g': g, 'dims': dims, 'listname': 'typical', 'edit_side': sd}, 'timeout': 30, 'validate': 1})
            T.append({'name': 'linearity/%s/%s' % (g, 'x'.join(map(str, dims))), 'fn': 'pv.props.c04:linearity',
                      'params': {'g': g, 'dims': dims}, 'timeout': 30, 'validate': 1})
    T.sort(key=lambda t: -int(np.prod(t['params']['dims'])) - (100 if 'Spherical' in t['name'] else 0))
    return T
