"""C05 Implicit matrix terms and the explicit gradient/mean/divergence chain agree."""
import itertools
import numpy as np
import pyfvtool as pf
from .. import scen, ops, symnp
from ..ops import face_basis      # noqa: F401

META = {
    'level': 'proof',
    'functions': ['diffusion.diffusionTerm*', 'advection.convectionTerm*', 'advection.convectionUpwindTerm* (incl. public dispatcher with u_upwind)',
                  'advection.convectionTvdRHS*', 'calculus.gradientTerm', 'calculus.divergenceTerm*', 'averaging.linearMean',
                  'averaging.upwindMean', 'face.FaceVariable.__mul__', 'pdesolver.solveExplicitPDE'],
    'bounds': '1-D N in {1,2,3,4}; 2-D (2,3),(3,2),(1,1) quick / {1,2,3}^2 thorough; 3-D (3,2,2),(2,3,2),(2,2,3) (+(1,1,1) thorough); '
              'one face at a time carries a symbolic coefficient c of any sign (upwind: separate u_upwind symbol s of any sign), '
              'phi fully symbolic incl. ghost cells; TVD unit-limiter identity on uniform spacing h (symbolic), origin symbolic',
    'outside': 'larger cell counts; separability per face (C17); float rounding',
    'assumptions': [],
    'trusted_base': [],
}


def upwind_dir(ctx, g, dims, zero=True):
    """convectionUpwindTerm(u, u_upwind) through the PUBLIC dispatcher == divergence(u * upwindMean(phi, u_upwind)):
    u = c e_f, u_upwind = s e_f with independent signs (the dispatcher must pass u_upwind on)"""
    m, fs = scen.mesh(ctx, g, dims)
    G = scen.cell_index(dims)
    phi_full = ctx.arr('p', scen.full_shape(dims))
    phi = pf.CellVariable(m, phi_full)
    pv = scen.flat(phi._value)
    c = ctx.real('c')
    s = ctx.real('s')
    tag = 'C05/%s/%s/upwind_dir' % (g, 'x'.join(map(str, dims)))
    for ax, fidx in ops.faces(dims):
        U = scen.unit_face(ctx, m, ax, fidx, c)
        Uup = scen.unit_face(ctx, m, ax, fidx, s)
        M = pf.convectionUpwindTerm(U, Uup)
        rows = scen.mat_rows(M)
        ch = pf.divergenceTerm(U * pf.upwindMean(phi, Uup))
        lo, hi = ops.adj(ax, fidx)
        for cc in (lo, hi):
            if not ops.is_interior(cc, dims):
                continue
            r = int(G[cc])
            ctx.eq('%s/row/%s/%s' % (tag, ops.fname(ax, fidx), '_'.join(map(str, cc))),
                   scen.matvec_row(rows, r, pv, ctx), ch[r], pre=[s != 0])
            if zero:
                ctx.eq('%s/zero_upwind/%s/%s' % (tag, ops.fname(ax, fidx), '_'.join(map(str, cc))),
                       scen.matvec_row(rows, r, pv, ctx), ch[r], pre=[s == 0])


def tvd_limits(ctx, g, dims):
    """FL == 0  =>  RHS_tvd == 0 (any spacing);  FL == 1 on uniform spacing  =>  upwind - TVD == central"""
    tag = 'C05/%s/%s/tvd' % (g, 'x'.join(map(str, dims)))
    # zero limiter, arbitrary spacing
    m, fs = scen.mesh(ctx, g, dims)
    phi = scen.cellvar(ctx, m, 'p', full=True)
    u = scen.facevar(ctx, m, 'u')
    G = scen.cell_index(dims)
    FL0 = lambda r: 0.0 * r          # noqa: E731
    rhs0 = pf.convectionTVDupwindRHSTerm(u, phi, FL0)
    for cc in scen.interior_cells(dims):
        ctx.eq('%s/zero_limiter/%s' % (tag, '_'.join(map(str, cc))), rhs0[int(G[cc])], 0.0)
    nz = [cc for cc in scen.all_cells(dims) if not ops.is_interior(cc, dims) and not ctx.is_zero_term(rhs0[int(G[cc])])]
    ctx.fact(tag + '/zero_limiter/ghost_components_zero', not nz)


def tvd_unit(ctx, g, dims):
    """unit limiter, uniform spacing: (M_upwind phi - RHS_tvd) == M_central phi on interior rows whose
    stencil does not touch a boundary face (there the boundary treatment of the upwind term differs by design)"""
    tag = 'C05/%s/%s/tvd' % (g, 'x'.join(map(str, dims)))
    m, fs = scen.mesh(ctx, g, dims, uniform=True)
    phi = scen.cellvar(ctx, m, 'p', full=True)
    pv = scen.flat(phi._value)
    G = scen.cell_index(dims)
    c = ctx.real('c')
    FL1 = lambda r: 1.0 + 0.0 * r    # noqa: E731
    for ax, fidx in ops.faces(dims):
        if fidx[ax] == 0 or fidx[ax] == dims[ax]:
            continue
        U = scen.unit_face(ctx, m, ax, fidx, c)
        Mu = scen.mat_rows(pf.convectionUpwindTerm(U))
        Mc = scen.mat_rows(pf.convectionTerm(U))
        rhs = pf.convectionTVDupwindRHSTerm(U, phi, FL1)
        lo, hi = ops.adj(ax, fidx)
        for cc in (lo, hi):
            r = int(G[cc])
            ctx.eq('%s/unit_limiter/%s/%s' % (tag, ops.fname(ax, fidx), '_'.join(map(str, cc))),
                   scen.matvec_row(Mu, r, pv, ctx) - rhs[r], scen.matvec_row(Mc, r, pv, ctx))


def explicit_same_operator(ctx, g, dims, term):
    """solveExplicitPDE(phi, dt, -(M phi)) advances by exactly the operator the implicit matrix applies"""
    m, fs = scen.mesh(ctx, g, dims)
    phi = scen.cellvar(ctx, m, 'p')
    dt = ctx.real('dt', 'pos')
    U = scen.facevar(ctx, m, 'k')
    M = ops.build(term, U)
    phi.apply_BCs()
    pv = scen.flat(phi._value)
    rows = scen.mat_rows(M)
    ch = ops.chain(term, U, phi)
    sgn = 1.0 if term == 'diffusion' else -1.0
    new = pf.solveExplicitPDE(phi, dt, sgn * ch)
    G = scen.cell_index(dims)
    tag = 'C05/%s/%s/explicit/%s' % (g, 'x'.join(map(str, dims)), term)
    nv = scen.flat(new._value)
    for cc in scen.interior_cells(dims):
        r = int(G[cc])
        ctx.eq('%s/%s' % (tag, '_'.join(map(str, cc))), nv[r], pv[r] + dt * sgn * scen.matvec_row(rows, r, pv, ctx))


def _dims(tier):
    d1 = [[1], [2], [3], [4]]
    d2 = [[2, 3], [3, 2], [1, 1]] if tier == 'quick' else [list(d) for d in itertools.product((1, 2, 3), repeat=2)]
    d3 = [[3, 2, 2], [2, 3, 2], [2, 2, 3]] if tier == 'quick' else [[3, 2, 2], [2, 3, 2], [2, 2, 3], [1, 1, 1], [3, 3, 3]]
    return {1: d1, 2: d2, 3: d3}


def scenarios(tier):
    T = []
    D = _dims(tier)
    small = {1: [[2], [3]], 2: [[2, 2]], 3: [[2, 2, 2]]}
    for g in scen.ALL:
        nd = scen.ndim(g)
        for dims in D[nd]:
            ds = 'x'.join(map(str, dims))
            for term in ops.TERMS:
                T.append({'name': 'basis/%s/%s/%s' % (g, ds, term), 'fn': 'pv.props.c05:face_basis',
                          'params': {'g': g, 'dims': dims, 'term': term, 'prop': 'C05'}, 'timeout': 30, 'validate': 1})
            T.append({'name': 'upwind_dir/%s/%s' % (g, ds), 'fn': 'pv.props.c05:upwind_dir',
                      'params': {'g': g, 'dims': dims, 'zero': (dims == D[nd][0]) and (tier == 'thorough' or nd < 3)},
                      'timeout': 30, 'validate': 1})
        for dims in (small[nd] if tier == 'quick' else D[nd]):
            ds = 'x'.join(map(str, dims))
            T.append({'name': 'tvd0/%s/%s' % (g, ds), 'fn': 'pv.props.c05:tvd_limits', 'params': {'g': g, 'dims': dims},
                      'timeout': 30, 'validate': 1})
        tu = {1: [[3], [4]], 2: [[3, 2], [2, 3]], 3: [[3, 2, 2], [2, 3, 2], [2, 2, 3]]}[nd]
        if tier == 'thorough':
            tu = tu + {1: [[5]], 2: [[3, 4]], 3: [[2, 3, 4]]}[nd]
        for dims in tu:
            T.append({'name': 'tvd1/%s/%s' % (g, 'x'.join(map(str, dims))), 'fn': 'pv.props.c05:tvd_unit',
                      'params': {'g': g, 'dims': dims}, 'timeout': 30, 'validate': 1})
        for dims in small[nd]:
            for term in (ops.TERMS if nd < 3 else ('diffusion', 'central')):
                T.append({'name': 'explicit/%s/%s/%s' % (g, 'x'.join(map(str, dims)), term),
                          'fn': 'pv.props.c05:explicit_same_operator', 'params': {'g': g, 'dims': dims, 'term': term},
                          'timeout': 30, 'validate': 1})
    T.sort(key=lambda t: -int(np.prod(t['params']['dims'])) - (100 if 'Spherical' in t['name'] else 0))
    return T
