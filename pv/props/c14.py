"""C14 Variable algebra is elementwise, side-effect free and yields independent objects."""
import copy
import itertools
import operator
import numpy as np
import pyfvtool as pf
from .. import scen, ops, symnp
from .. import symreal as sr

META = {
    'level': 'proof',
    'functions': ['cell.CellVariable.__add__/__radd__/__sub__/__rsub__/__mul__/__rmul__/__truediv__/__rtruediv__/__pow__/__rpow__/__neg__/__abs__/'
                  '__gt__/__ge__/__lt__/__le__/__and__/__or__/copy', 'cell.funceval', 'cell.celleval', 'face.FaceVariable operators', 'face.faceeval',
                  'boundary.cellValuesWithBoundaries* (ghost layer of results)'],
    'bounds': 'every operator and reflected operator x operand kinds {variable, symbolic scalar (either side), ndarray of symbols (right)} x all 9 grid '
              'classes (dims 1-D [2], 2-D (2,2), 3-D (2,2,2)) x symbolic face-wise Robin BCs on the left operand, different BCs on the right operand; '
              'funceval/celleval with 1..8 arguments; faceeval with 1..8; expression trees of depth 2; values are symbols, so "elementwise" is decided '
              'on terms for all inputs at once',
    'outside': 'deeper expression trees (each operator returns a fresh CellVariable, so depth adds nothing new); float rounding',
    'assumptions': [],
    'trusted_base': [],
}

BIN = {
    'add': operator.add, 'sub': operator.sub, 'mul': operator.mul, 'truediv': operator.truediv, 'pow': operator.pow,
    'gt': operator.gt, 'ge': operator.ge, 'lt': operator.lt, 'le': operator.le,
}
LOGIC = {'and': operator.and_, 'or': operator.or_}
UN = {'neg': operator.neg, 'abs': abs}


def _snap_cell(v):
    return {'val': scen.flat(v._value), 'ids': (id(v._value), id(v.BCs)),
            'bc': {sd: (scen.flat(getattr(v.BCs, sd).a), scen.flat(getattr(v.BCs, sd).b), scen.flat(getattr(v.BCs, sd).c),
                        getattr(v.BCs, sd).periodic) for sd in scen.SIDES}}


def _same_snap(ctx, a, b):
    def eqv(x, y):
        if ctx.sym:
            return sr.lift(x) is sr.lift(y)
        return float(x) == float(y) or (x != x and y != y)
    if len(a['val']) != len(b['val']) or a['ids'] != b['ids']:
        return False
    if not all(eqv(x, y) for x, y in zip(a['val'], b['val'])):
        return False
    for sd in scen.SIDES:
        for k in range(3):
            if len(a['bc'][sd][k]) != len(b['bc'][sd][k]) or not all(eqv(x, y) for x, y in zip(a['bc'][sd][k], b['bc'][sd][k])):
                return False
        if a['bc'][sd][3] != b['bc'][sd][3]:
            return False
    return True


def _mkvar(ctx, m, g, prefix, robin=True, kind='any'):
    BC = pf.BoundaryConditions(m)
    if robin:
        for sd in scen.sides_of(g):
            scen.set_robin(ctx, BC, sd, prefix=prefix + sd)
    dims = [int(d) for d in m.dims]
    return pf.CellVariable(m, ctx.arr(prefix, tuple(dims), kind), BC)


def _num(ctx, x):
    """comparison results as numbers (True -> 1) for oracle comparison"""
    if isinstance(x, sr.SymB):
        return x._num()
    if isinstance(x, (bool, np.bool_)):
        return float(x)
    return x


def _check_result(ctx, tag, res, expect_vals, left, m, g, dims):
    ok_type = type(res) is pf.CellVariable
    ctx.fact(tag + '/is_cellvariable', ok_type)
    if not ok_type:
        return
    rv = np.asarray(res.value if not ctx.sym else res.value.view(np.ndarray))
    ctx.fact(tag + '/shape', tuple(rv.shape) == tuple(dims))
    for idx in itertools.product(*[range(d) for d in dims]):
        ctx.same_term('%s/value/%s' % (tag, '_'.join(map(str, idx))), _num(ctx, rv[idx]), _num(ctx, expect_vals[idx]))
    # carries a deep copy of the left-most variable operand's boundary conditions
    shares = False
    same = True
    for sd in scen.sides_of(g):
        fr, fl = getattr(res.BCs, sd), getattr(left.BCs, sd)
        for x, y in ((fr.a, fl.a), (fr.b, fl.b), (fr.c, fl.c)):
            shares = shares or np.shares_memory(x, y)
            if ctx.sym:
                same = same and all(sr.lift(p) is sr.lift(q) for p, q in zip(scen.flat(x), scen.flat(y)))
            else:
                same = same and np.array_equal(np.asarray(x, dtype=float), np.asarray(y, dtype=float))
        same = same and fr.periodic == fl.periodic
    ctx.fact(tag + '/bc_copied_from_leftmost', same and res.BCs is not left.BCs and not shares)
    ctx.fact(tag + '/no_shared_value_memory', not np.shares_memory(res._value, left._value))
    # ghost layer consistent with its own BCs
    fresh = pf.CellVariable(m, np.array(res.value), copy.deepcopy(res.BCs))
    for cc in scen.all_cells(dims):
        if scen.n_out(cc, dims) == 1:
            ctx.same_term('%s/ghost/%s' % (tag, '_'.join(map(str, cc))), _num(ctx, res._value[cc]), _num(ctx, fresh._value[cc]))


def binary(ctx, g, dims, opname, kind):
    m, fs = scen.mesh(ctx, g, dims)
    A = _mkvar(ctx, m, g, 'A', kind='pos' if opname == 'pow' else 'any'); B = _mkvar(ctx, m, g, 'B')
    if opname in LOGIC:
        A = pf.CellVariable(m, A.value > 0, A.BCs); B = pf.CellVariable(m, B.value > 0, B.BCs)
    s = ctx.real('s')
    arr = ctx.arr('R', tuple(dims))
    f = (BIN if opname in BIN else LOGIC)[opname]
    snapA, snapB = _snap_cell(A), _snap_cell(B)
    av = np.array(A.value.view(np.ndarray)) if ctx.sym else np.array(A.value)
    bv = np.array(B.value.view(np.ndarray)) if ctx.sym else np.array(B.value)
    if opname == 'pow' and kind != 'var_scalar2':
        ex = 2 if kind in ('var_scalar', 'scalar_var') else None
    tag = 'C14/%s/%s/%s/%s' % (g, 'x'.join(map(str, dims)), opname, kind)
    logic = opname in LOGIC
    def _lg(x):
        return symnp._b(x) if isinstance(x, (sr.Sym, sr.SymB)) else bool(x)

    def _logic(x, y):
        x, y = _lg(x), _lg(y)
        if isinstance(x, sr.SymB) or isinstance(y, sr.SymB):
            x, y = symnp._b(x), symnp._b(y)
            return (x & y) if opname == 'and' else (x | y)
        return (x and y) if opname == 'and' else (x or y)
    elem = (lambda x, y: f(x, y)) if not logic else _logic
    if kind == 'var_var':
        res = f(A, B); exp = np.vectorize(elem, otypes=[object])(av, bv); left = A
    elif kind == 'var_scalar':
        sc = (s > 0) if logic else (2 if opname == 'pow' else s)
        res = f(A, sc); exp = np.vectorize(lambda x: elem(x, sc), otypes=[object])(av); left = A
    elif kind == 'scalar_var':
        sc = (s > 0) if logic else (2 if opname == 'pow' else s)
        if logic:
            res = f(A, sc); exp = np.vectorize(lambda x: elem(x, sc), otypes=[object])(av)
        else:
            res = f(sc, A); exp = np.vectorize(lambda x: elem(sc, x), otypes=[object])(av)
        left = A
    elif kind == 'var_array':
        ar = (arr > 0) if logic else arr
        res = f(A, ar); exp = np.vectorize(elem, otypes=[object])(av, np.asarray(ar).view(np.ndarray) if ctx.sym else np.asarray(ar)); left = A
    else:
        raise KeyError(kind)
    _check_result(ctx, tag, res, exp, left, m, g, dims)
    ctx.fact(tag + '/operands_unchanged', _same_snap(ctx, snapA, _snap_cell(A)) and _same_snap(ctx, snapB, _snap_cell(B)))
    # independence: writing into the result leaves the operands alone and vice versa
    if type(res) is pf.CellVariable:
        z = ctx.real('z')
        res.value = z
        for sd in scen.sides_of(g):
            getattr(res.BCs, sd).a[:] = z; getattr(res.BCs, sd).c[:] = z
            getattr(res.BCs, sd).periodic = not getattr(res.BCs, sd).periodic
        ctx.fact(tag + '/result_edit_leaves_operands', _same_snap(ctx, snapA, _snap_cell(A)) and _same_snap(ctx, snapB, _snap_cell(B)))
        snapR = _snap_cell(res)
        A.value = ctx.real('z2')
        for sd in scen.sides_of(g):
            getattr(A.BCs, sd).b[:] = ctx.real('z3')
        ctx.fact(tag + '/operand_edit_leaves_result', _same_snap(ctx, snapR, _snap_cell(res)))


def unary_copy_eval(ctx, g, dims):
    m, fs = scen.mesh(ctx, g, dims)
    A = _mkvar(ctx, m, g, 'A')
    av = np.array(A.value.view(np.ndarray)) if ctx.sym else np.array(A.value)
    tag = 'C14/%s/%s' % (g, 'x'.join(map(str, dims)))
    snapA = _snap_cell(A)
    for nm, f in UN.items():
        res = f(A)
        _check_result(ctx, '%s/%s' % (tag, nm), res, np.vectorize(f, otypes=[object])(av), A, m, g, dims)
    cp = A.copy()
    _check_result(ctx, tag + '/copy', cp, av, A, m, g, dims)
    for cc in scen.all_cells(dims):
        if scen.n_out(cc, dims) <= 1:
            ctx.same_term('%s/copy/full/%s' % (tag, '_'.join(map(str, cc))), cp._value[cc], A._value[cc])
    # funceval / celleval with 1..8 arguments
    vs = [A] + [_mkvar(ctx, m, g, 'V%d' % k, robin=False) for k in range(7)]
    for n in range(1, 9):
        fn = lambda *xs: sum(x * (i + 1) for i, x in enumerate(xs))      # noqa: E731
        for nm, ev in (('funceval', pf.funceval), ('celleval', pf.celleval)):
            if nm == 'celleval' and n not in (1, 3):
                continue
            res = ev(fn, *vs[:n])
            exp = fn(*[np.array(v.value.view(np.ndarray)) if ctx.sym else np.array(v.value) for v in vs[:n]])
            _check_result(ctx, '%s/%s%d' % (tag, nm, n), res, exp, A, m, g, dims)
    ctx.fact(tag + '/operands_unchanged', _same_snap(ctx, snapA, _snap_cell(A)))
    # depth-2 expression tree
    B = vs[1]
    s = ctx.real('s')
    res = (A * s + B) / (2 - A) - abs(B)
    bv = np.array(B.value.view(np.ndarray)) if ctx.sym else np.array(B.value)
    exp = np.vectorize(lambda a, b: (a * s + b) / (2 - a) - abs(b), otypes=[object])(av, bv)
    _check_result(ctx, tag + '/tree', res, exp, A, m, g, dims)


def face_algebra(ctx, g, dims):
    m, fs = scen.mesh(ctx, g, dims)
    A = scen.facevar(ctx, m, 'A'); B = scen.facevar(ctx, m, 'B')
    s = ctx.real('s')
    nd = len(dims)
    tag = 'C14/%s/%s/face' % (g, 'x'.join(map(str, dims)))

    def comps(F):
        return [np.array(np.asarray(scen.fcomp(F, a)).view(np.ndarray)) for a in range(nd)]
    ca, cb = comps(A), comps(B)
    ids = [id(scen.fcomp(A, a)) for a in range(nd)]

    def chk(name, res, fn):
        ok = type(res) is pf.FaceVariable and res.domain is m
        ctx.fact('%s/%s/is_facevariable' % (tag, name), ok)
        if not ok:
            return
        for a in range(nd):
            rc = np.asarray(scen.fcomp(res, a)).view(np.ndarray)
            ctx.fact('%s/%s/shape%d' % (tag, name, a), rc.shape == ca[a].shape)
            for idx in itertools.product(*[range(q) for q in ca[a].shape]):
                ctx.same_term('%s/%s/%s%s' % (tag, name, scen.AX[a], '_'.join(map(str, idx))), _num(ctx, rc[idx]), _num(ctx, fn(a, idx)))
            ctx.fact('%s/%s/independent%d' % (tag, name, a), not np.shares_memory(scen.fcomp(res, a), scen.fcomp(A, a))
                     and not np.shares_memory(scen.fcomp(res, a), scen.fcomp(B, a)))
    for nm, f in BIN.items():
        if nm == 'pow':
            chk('pow_scalar', A ** 2, lambda a, i: ca[a][i] ** 2)
            continue
        chk(nm + '_var', f(A, B), lambda a, i: f(ca[a][i], cb[a][i]))
        chk(nm + '_scalar', f(A, s), lambda a, i: f(ca[a][i], s))
        if nm in ('add', 'sub', 'mul', 'truediv'):
            chk('r' + nm + '_scalar', f(s, A), lambda a, i: f(s, ca[a][i]))
    chk('neg', -A, lambda a, i: -ca[a][i])
    chk('abs', abs(A), lambda a, i: abs(ca[a][i]))
    La, Lb = A > 0, B > 0
    la, lb = comps(La), comps(Lb)
    chk('and', La & Lb, lambda a, i: la[a][i] & lb[a][i])
    chk('or', La | Lb, lambda a, i: la[a][i] | lb[a][i])
    # reflected power and logical operators with a scalar on the other side
    chk('rpow_scalar', 2 ** A, lambda a, i: 2 ** ca[a][i])
    sc = s > 0
    chk('and_scalar', La & sc, lambda a, i: symnp._b(la[a][i]) & symnp._b(sc) if ctx.sym else bool(la[a][i]) and bool(sc))
    chk('or_scalar', La | sc, lambda a, i: symnp._b(la[a][i]) | symnp._b(sc) if ctx.sym else bool(la[a][i]) or bool(sc))
    Fs = [A, B] + [scen.facevar(ctx, m, 'W%d' % k) for k in range(6)]
    cs = [comps(F) for F in Fs]
    for n in range(1, 9):
        fn = lambda *xs: sum(x * (i + 1) for i, x in enumerate(xs))      # noqa: E731
        chk('faceeval%d' % n, pf.faceeval(fn, *Fs[:n]), lambda a, i: fn(*[c[a][i] for c in cs[:n]]))
    same = all(id(scen.fcomp(A, a)) == ids[a] for a in range(nd))
    if ctx.sym:
        same = same and all(sr.lift(x) is sr.lift(y) for a in range(nd) for x, y in zip(scen.flat(scen.fcomp(A, a)), ca[a].ravel()))
    ctx.fact(tag + '/operands_unchanged', same)


def scenarios(tier):
    T = []
    D = {1: [2], 2: [2, 2], 3: [2, 2, 2]}
    kinds = ('var_var', 'var_scalar', 'scalar_var', 'var_array')
    for g in scen.ALL:
        dims = D[scen.ndim(g)]
        names = list(BIN) + list(LOGIC)
        for opn in names:
            for kd in kinds:
                if tier == 'quick' and scen.ndim(g) == 3 and kd in ('var_array',) and opn not in ('add', 'truediv'):
                    continue
                T.append({'name': 'binary/%s/%s/%s' % (g, opn, kd), 'fn': 'pv.props.c14:binary',
                          'params': {'g': g, 'dims': dims, 'opname': opn, 'kind': kd}, 'timeout': 30, 'validate': 1})
        T.append({'name': 'unary/%s' % g, 'fn': 'pv.props.c14:unary_copy_eval', 'params': {'g': g, 'dims': dims}, 'timeout': 30, 'validate': 1})
        T.append({'name': 'face/%s' % g, 'fn': 'pv.props.c14:face_algebra', 'params': {'g': g, 'dims': dims}, 'timeout': 30, 'validate': 1})
    T.sort(key=lambda t: -int(np.prod(t['params']['dims'])))
    return T
