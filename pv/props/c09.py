"""C09 No stale state: any edit history followed by a solve equals a fresh start."""
import itertools
import numpy as np
import pyfvtool as pf
from .. import scen, ops, symnp
from .. import symreal as sr

META = {
    'level': 'model_checking',
    'functions': ['utilities.TrackedArray (dirty bits)', 'boundary.BoundaryFace setters/utility methods/periodic', 'boundary.BoundaryConditionsBase.modified',
                  'cell.CellVariable.__init__/value setter/apply_BCs/update_value/copy/arithmetic', 'pdesolver.solvePDE', 'pdesolver.solveExplicitPDE',
                  'boundary.boundaryConditionsTerm*', 'boundary.cellValuesWithBoundaries*'],
    'bounds': 'bounded-exhaustive histories over an alphabet of 24 edit/solve operations (all values written are fresh symbols, so one history covers '
              'all values): every history of length <= 2 (quick) / <= 3 (thorough) on Grid1D N=2, plus every history of length <= 2 (thorough) / a '
              'covering set (quick) on Grid2D (2,2), PolarGrid2D (2,2), CylindricalGrid1D N=2, Grid3D (2,2,2); both construction styles (BCs passed '
              'in or defaulted); followed by an implicit or explicit solve compared entry by entry (captured system, stored values, ghost layer) '
              'with a variable freshly constructed from the visible state',
    'outside': 'longer histories beyond the fixed-seed random set (200 quick / 1220 thorough histories of length 3..7 on Grid1D N=3, Grid2D (2,3), '
               'CylindricalGrid2D (3,2), Grid3D (1,2,3)); no inductive invariant is claimed: the shared-BC-object finding shows the natural '
               'candidate "a dirty bit is set or the cache is fresh" is not inductive across variables',
    'assumptions': ['visible state = interior values, (a, b, c) arrays and periodic flags of the variable\'s BC object'],
    'trusted_base': [],
    'rule': 'one state = the pair (variable, BC object) after a prefix of a history; one transition = one operation of the alphabet; a history is '
            'non-trivial when the final comparison needs more than object identity (all are)',
}


def _fresh_from_visible(ctx, m, g, phi):
    BC = pf.BoundaryConditions(m)
    for sd in scen.sides_of(g):
        src, dst = getattr(phi.BCs, sd), getattr(BC, sd)
        dst.a[:] = np.array(np.asarray(src.a).view(np.ndarray))
        dst.b[:] = np.array(np.asarray(src.b).view(np.ndarray))
        dst.c[:] = np.array(np.asarray(src.c).view(np.ndarray))
        if src.periodic:
            dst.periodic = True
    vals = np.array(np.asarray(phi.value).view(np.ndarray))
    vals = symnp.symarray(vals) if ctx.sym else vals.astype(float)
    return pf.CellVariable(m, vals, BC)


class St:
    pass


def _ops(ctx, g, m, dims):
    """the alphabet: name -> function(state, k) (k = step index, for fresh symbol names)"""
    sides = scen.sides_of(g)
    lo, hi = sides[0], sides[1]
    last_lo = sides[-2]
    can_per = [ax for ax in range(len(dims)) if scen.periodic_ok(g, ax)]
    per_side = scen.SIDES[2 * can_per[-1]] if can_per else None
    full = scen.full_shape(dims)
    n = int(np.prod(full))

    def S(k, nm):
        return ctx.real('h%d_%s' % (k, nm))

    def A(k, nm, shape):
        return ctx.arr('h%d_%s' % (k, nm), shape)

    def terms(st, k):
        return [pf.linearSourceTerm(pf.CellVariable(m, 1.0)), pf.constantSourceTerm(pf.CellVariable(m, A(k, 'g', tuple(dims))))]

    O = {}
    O['set_a'] = lambda st, k: setattr(getattr(st.phi.BCs, lo), 'a', S(k, 'a'))
    O['set_b_slice'] = lambda st, k: getattr(st.phi.BCs, hi).b.__setitem__(slice(0, 1), S(k, 'b'))
    O['set_c'] = lambda st, k: setattr(getattr(st.phi.BCs, last_lo), 'c', S(k, 'c'))
    O['fixedValue'] = lambda st, k: getattr(st.phi.BCs, lo).fixedValue(S(k, 'fv'))
    O['fixedGradient'] = lambda st, k: getattr(st.phi.BCs, hi).fixedGradient(S(k, 'fg'))
    O['newtonCooling'] = lambda st, k: getattr(st.phi.BCs, hi).newtonCooling(S(k, 'nk'), S(k, 'nh'), S(k, 'nT'))
    O['newtonCooling_reversed'] = lambda st, k: getattr(st.phi.BCs, lo).newtonCooling(S(k, 'rk'), S(k, 'rh'), S(k, 'rT'), reverse_direction=True)
    O['defaultNoFlux'] = lambda st, k: getattr(st.phi.BCs, lo).defaultNoFlux()
    if per_side:
        O['periodic_on'] = lambda st, k: setattr(getattr(st.phi.BCs, per_side), 'periodic', True)
        O['periodic_off'] = lambda st, k: setattr(getattr(st.phi.BCs, per_side), 'periodic', False)
    # augmented assignment on a whole coefficient through the property: in-place ufunc (which raises no dirty bit by itself), then the setter
    def _aug(side, nm, op):
        def f(st, k):
            face = getattr(st.phi.BCs, side)
            v = getattr(face, nm)
            v = op(v, S(k, 'aug_' + nm))
            setattr(face, nm, v)
        return f
    import operator
    O['iadd_c'] = _aug(hi, 'c', operator.iadd)
    O['imul_a'] = _aug(lo, 'a', operator.imul)
    O['isub_b'] = _aug(last_lo, 'b', operator.isub)
    O['value_assign'] = lambda st, k: setattr(st.phi, 'value', A(k, 'v', tuple(dims)))
    O['value_slice'] = lambda st, k: st.phi.value.__setitem__((slice(0, 1),) * len(dims), S(k, 'vs'))
    O['update_value'] = lambda st, k: st.phi.update_value(pf.CellVariable(m, A(k, 'uv', tuple(dims))))

    def _vals(v):
        return list(np.asarray(v._value).view(np.ndarray).ravel())

    def _same(a, b):
        if ctx.sym:
            return all(sr.lift(x) is sr.lift(y) for x, y in zip(a, b))
        return all((x == y) or (x != x and y != y) for x, y in zip(a, b))

    def do_update_then_edit_source(st, k):
        # phi takes the values of psi; psi is then edited IN PLACE (assignment and slice assignment): phi must not follow
        psi = pf.CellVariable(m, A(k, 'us', tuple(dims)))
        st.phi.update_value(psi)
        before = _vals(st.phi)
        psi.value = A(k, 'ue', tuple(dims))
        psi.value[(slice(0, 1),) * len(dims)] = S(k, 'uf')
        ctx.fact('%s/step%d/update_value_independent_of_source' % (st.tag, k), _same(before, _vals(st.phi)),
                 'editing the source of update_value changed the destination')
        # and the other way round
        src_before = _vals(psi)
        st.phi.value = A(k, 'ug', tuple(dims))
        ctx.fact('%s/step%d/update_value_source_independent_of_destination' % (st.tag, k), _same(src_before, _vals(psi)),
                 'editing the destination of update_value changed the source')
    O['update_value_then_edit_both'] = do_update_then_edit_source

    def do_copy(st, k):
        old = st.phi
        before = _vals(old)
        st.phi = st.phi.copy()
        st.phi.value[(slice(0, 1),) * len(dims)] = S(k, 'cp')
        ctx.fact('%s/step%d/copy_independent_of_original' % (st.tag, k), _same(before, _vals(old)),
                 'editing a copy changed the original')
    O['copy'] = do_copy

    def do_add(st, k):
        st.phi = st.phi + pf.CellVariable(m, A(k, 'ad', tuple(dims)))
    O['add_var'] = do_add

    def do_scale(st, k):
        st.phi = S(k, 'sc') * st.phi
    O['rmul_scalar'] = do_scale

    def do_neg(st, k):
        st.phi = -st.phi
    O['neg'] = do_neg
    O['apply_BCs'] = lambda st, k: st.phi.apply_BCs()

    def do_solve(st, k):
        sol = scen.Solver(ctx, 'h%d_x' % k)
        pf.solvePDE(st.phi, terms(st, k), externalsolver=sol)
    O['solvePDE'] = do_solve

    def do_explicit(st, k):
        st.phi = pf.solveExplicitPDE(st.phi, ctx.real('h%d_dt' % k, 'pos'), A(k, 'R', (n,)))
    O['solveExplicitPDE'] = do_explicit

    def do_explicit_keep(st, k):
        # explicit step whose result is kept elsewhere; the history continues on the INPUT variable
        pf.solveExplicitPDE(st.phi, ctx.real('h%d_dt' % k, 'pos'), A(k, 'R', (n,)))
    O['solveExplicitPDE_keep_input'] = do_explicit_keep

    def share_solve(st, k):
        # a second variable on the SAME boundary-condition object is created and solved
        psi = pf.CellVariable(m, A(k, 'ps', tuple(dims)), st.phi.BCs)
        sol = scen.Solver(ctx, 'h%d_y' % k)
        pf.solvePDE(psi, terms(st, k), externalsolver=sol)
    O['shared_bc_other_solves'] = share_solve

    def share_apply(st, k):
        psi = pf.CellVariable(m, A(k, 'pa', tuple(dims)), st.phi.BCs)
        psi.apply_BCs()
    O['shared_bc_other_applies'] = share_apply

    def share_construct(st, k):
        # a second variable is merely CONSTRUCTED on the same boundary-condition object (a second species); nothing else is done with it
        pf.CellVariable(m, A(k, 'pc', tuple(dims)), st.phi.BCs)
    O['shared_bc_other_constructed'] = share_construct
    return O


def _final(ctx, g, m, dims, st, tag, final):
    fresh = _fresh_from_visible(ctx, m, g, st.phi)
    G = scen.cell_index(dims)
    n = int(np.prod(scen.full_shape(dims)))
    gam = ctx.arr('fin_g', tuple(dims))
    if final == 'implicit':
        s1 = scen.Solver(ctx, 'fin_x'); s2 = scen.Solver(ctx, 'fin_x')
        t = lambda: [pf.linearSourceTerm(pf.CellVariable(m, 1.0)), pf.constantSourceTerm(pf.CellVariable(m, gam))]    # noqa: E731
        try:
            pf.solvePDE(st.phi, t(), externalsolver=s1)
            err = None
        except Exception as e:      # noqa
            err = '%s: %s' % (type(e).__name__, e)
        ctx.fact(tag + '/solve_succeeds', err is None, str(err))
        if err is not None:
            return
        pf.solvePDE(fresh, t(), externalsolver=s2)
        keys = set()
        for cc in scen.all_cells(dims):
            if scen.n_out(cc, dims) == 1:
                for ax in range(len(dims)):
                    for q in range(scen.full_shape(dims)[ax]):
                        c2 = list(cc); c2[ax] = q
                        keys.add((int(G[cc]), int(G[tuple(c2)])))
        for (i, j) in sorted(keys):
            ctx.same_term('%s/M/%d_%d' % (tag, i, j), scen.mat_get(s1.M, i, j), scen.mat_get(s2.M, i, j))
        for i in range(n):
            ctx.same_term('%s/RHS/%d' % (tag, i), s1.RHS[i], s2.RHS[i])
        a, b = st.phi, fresh
    else:
        dt = ctx.real('fin_dt', 'pos'); R = ctx.arr('fin_R', (n,))
        try:
            a = pf.solveExplicitPDE(st.phi, dt, R)
            err = None
        except Exception as e:      # noqa
            err = '%s: %s' % (type(e).__name__, e)
        ctx.fact(tag + '/solve_succeeds', err is None, str(err))
        if err is not None:
            return
        b = pf.solveExplicitPDE(fresh, dt, R)
    for cc in scen.all_cells(dims):
        if scen.n_out(cc, dims) <= 1:
            ctx.same_term('%s/value/%s' % (tag, '_'.join(map(str, cc))), a._value[cc], b._value[cc])


def histories(ctx, g, dims, seqs, final='implicit', style='passed'):
    """seqs: list of operation-name sequences; every history starts from a freshly constructed variable"""
    m, fs = scen.mesh(ctx, g, dims)
    O = _ops(ctx, g, m, dims)
    for seq in seqs:
        st = St()
        if style == 'passed':
            BC = pf.BoundaryConditions(m)
            scen.set_robin(ctx, BC, scen.sides_of(g)[0], prefix='i0')
            st.phi = pf.CellVariable(m, ctx.arr('i_v', tuple(dims)), BC)
        else:
            st.phi = pf.CellVariable(m, ctx.arr('i_v', tuple(dims)))
        tag = 'C09/%s/%s/%s/%s/%s' % (g, 'x'.join(map(str, dims)), style, final, '>'.join(seq) or 'empty')
        st.tag = tag
        ok = True
        ctx.stats['states'] = ctx.stats.get('states', 0) + len(seq) + 1
        ctx.stats['transitions'] = ctx.stats.get('transitions', 0) + len(seq) + 1      # + the final solve
        ctx.stats['histories'] = ctx.stats.get('histories', 0) + 1
        if ctx.mode != 'sym':
            ctx.stats['traces_validated'] = ctx.stats.get('traces_validated', 0) + 1
        for k, nm in enumerate(seq):
            try:
                O[nm](st, k)
            except Exception as e:      # noqa
                # radial periodic etc. are not in the alphabet; any exception inside a supported edit is a failure of the property
                ctx.fact(tag + '/step%d_%s_succeeds' % (k, nm), False, '%s: %s' % (type(e).__name__, e))
                ok = False
                break
        if ok:
            _final(ctx, g, m, dims, st, tag, final)


def alphabet(g, dims):
    names = ['set_a', 'set_b_slice', 'set_c', 'fixedValue', 'fixedGradient', 'newtonCooling', 'newtonCooling_reversed', 'defaultNoFlux', 'value_assign', 'value_slice',
             'update_value', 'update_value_then_edit_both', 'copy', 'add_var', 'rmul_scalar', 'neg', 'apply_BCs', 'solvePDE', 'solveExplicitPDE', 'solveExplicitPDE_keep_input',
             'shared_bc_other_solves',
             'shared_bc_other_applies']
    if any(scen.periodic_ok(g, ax) for ax in range(len(dims))):
        names += ['periodic_on', 'periodic_off']
    return names


def scenarios(tier):
    T = []

    def add(g, dims, seqs, final, style, chunk=40):
        for k in range(0, len(seqs), chunk):
            T.append({'name': 'hist/%s/%s/%s/%d' % (g, final, style, k // chunk), 'fn': 'pv.props.c09:histories',
                      'params': {'g': g, 'dims': dims, 'seqs': seqs[k:k + chunk], 'final': final, 'style': style}, 'timeout': 30, 'validate': 1,
                      'batch': 12})
    # Grid1D: exhaustive to depth 2 (quick) / 3 (thorough)
    al = alphabet('Grid1D', [2])
    depth = 2 if tier == 'quick' else 3
    seqs = [[]]
    for d in range(1, depth + 1):
        seqs += [list(s) for s in itertools.product(al, repeat=d)]
    for final in ('implicit', 'explicit'):
        for style in ('passed', 'default'):
            if tier == 'quick' and (final, style) not in (('implicit', 'passed'), ('explicit', 'default')):
                add('Grid1D', [2], [s for s in seqs if len(s) <= 1], final, style)
            else:
                add('Grid1D', [2], seqs, final, style)
    # other grids: depth <= 1 exhaustive + a covering set of pairs (quick) / depth 2 exhaustive (thorough)
    cover = [['set_a', 'solvePDE'], ['solvePDE', 'set_c'], ['periodic_on', 'solvePDE'], ['solvePDE', 'periodic_on'], ['periodic_on', 'periodic_off'],
             ['value_assign', 'fixedValue'], ['solveExplicitPDE', 'set_a'], ['copy', 'set_b_slice'], ['update_value', 'apply_BCs'],
             ['set_a', 'shared_bc_other_solves'], ['add_var', 'newtonCooling'], ['apply_BCs', 'value_slice'], ['solvePDE', 'update_value'],
             ['fixedGradient', 'solveExplicitPDE'], ['neg', 'solvePDE'], ['solveExplicitPDE', 'solveExplicitPDE'],
             ['set_a', 'solveExplicitPDE_keep_input'], ['periodic_on', 'solveExplicitPDE_keep_input'], ['solveExplicitPDE_keep_input', 'set_c']]
    # every (settling operation, settling operation, edit) triple: caches filled twice in different ways, then invalidated
    settle = ['solvePDE', 'solveExplicitPDE', 'solveExplicitPDE_keep_input', 'apply_BCs']
    edits3 = ['set_a', 'set_b_slice', 'periodic_on', 'value_slice', 'fixedValue']
    cover3 = [[a, b, e] for a in settle for b in settle for e in edits3]
    al1 = alphabet('Grid1D', [2])
    for final, style in (('implicit', 'passed'), ('implicit', 'default'), ('explicit', 'default')):
        add('Grid1D', [2], [q for q in cover3 if all(x in al1 for x in q)], final, style)
    cover = cover + [q for q in cover3 if q[0] != q[1]][::3]
    for g, dims in (('CylindricalGrid1D', [2]), ('Grid2D', [2, 2]), ('PolarGrid2D', [2, 2]), ('Grid3D', [2, 2, 2])):
        al = alphabet(g, dims)
        s1 = [[]] + [[a] for a in al]
        if tier == 'thorough':
            s2 = [list(s) for s in itertools.product(al, repeat=2)]
        else:
            s2 = [s for s in cover if all(x in al for x in s)]
        for final, style in ((('implicit', 'passed'), ('explicit', 'default')) if tier == 'quick' else
                             (('implicit', 'passed'), ('implicit', 'default'), ('explicit', 'passed'), ('explicit', 'default'))):
            add(g, dims, s1 + s2, final, style, chunk=20 if len(dims) == 3 else 40)
    # augmented assignments (`BC.right.c += x`): not part of the exhaustive alphabet, every placement relative to one settling operation
    aug = ['iadd_c', 'imul_a', 'isub_b']
    augseqs = [[a] for a in aug] + [[s_, a] for s_ in settle + ['value_assign'] for a in aug] + [[a, s_] for s_ in settle for a in aug] + \
              [['iadd_c', 'imul_a', 'isub_b'], ['solvePDE', 'iadd_c', 'solvePDE'], ['set_c', 'solvePDE', 'iadd_c']]
    edits_bc = ['set_a', 'set_b_slice', 'set_c', 'fixedValue', 'fixedGradient', 'newtonCooling', 'defaultNoFlux']
    augseqs += [[e, 'shared_bc_other_constructed'] for e in edits_bc] + [['solvePDE', e, 'shared_bc_other_constructed'] for e in edits_bc[:3]] + \
               [['shared_bc_other_constructed', e] for e in edits_bc[:3]] + [['shared_bc_other_constructed']]
    # the healed forms of the recorded shared-object finding: once the first variable is touched again, nothing stale may survive
    heal = ['value_assign', 'value_slice', 'update_value', 'apply_BCs', 'set_c']
    augseqs += [[e, sh, h] for e in ('set_a', 'fixedValue') for sh in ('shared_bc_other_solves', 'shared_bc_other_applies') for h in heal]
    for g, dims in (('Grid1D', [2]), ('CylindricalGrid1D', [2]), ('Grid2D', [2, 2])) + ((('PolarGrid2D', [2, 2]), ('Grid3D', [2, 2, 2])) if tier != 'quick' else ()):
        for final, style in (('implicit', 'passed'), ('implicit', 'default'), ('explicit', 'default')):
            for k in range(0, len(augseqs), 20):
                T.append({'name': 'augassign/%s/%s/%s/%d' % (g, final, style, k // 20), 'fn': 'pv.props.c09:histories',
                          'params': {'g': g, 'dims': dims, 'seqs': augseqs[k:k + 20], 'final': final, 'style': style}, 'timeout': 30,
                          'validate': 1, 'batch': 12})
    # random longer histories (fixed seed: the set is the same on every run; every value written is still a fresh symbol)
    import random
    import os
    rnd = random.Random(20260924 + int(os.environ.get('PV_C09_SEED', '0')))      # PV_C09_SEED: exploration only; checks use the fixed set
    for g, dims, cnt in ((('Grid1D', [3], 160), ('Grid2D', [2, 3], 40)) if tier == 'quick' else
                         (('Grid1D', [3], 800), ('Grid2D', [2, 3], 240), ('CylindricalGrid2D', [3, 2], 120), ('Grid3D', [1, 2, 3], 60))):
        al = alphabet(g, dims)
        seqs = [[rnd.choice(al) for _ in range(rnd.randint(3, 7))] for _ in range(cnt)]
        for final, style in (('implicit', 'passed'), ('explicit', 'default')):
            half = seqs[:cnt // 2] if final == 'implicit' else seqs[cnt // 2:]
            for k in range(0, len(half), 20):
                T.append({'name': 'random/%s/%s/%s/%d' % (g, final, style, k // 20), 'fn': 'pv.props.c09:histories',
                          'params': {'g': g, 'dims': dims, 'seqs': half[k:k + 20], 'final': final, 'style': style}, 'timeout': 30,
                          'validate': 1, 'batch': 12})
    return T
