"""C02 Solutions converge to the exact solution of the documented PDE on every grid
(decided in its consistency / exactness form: the assembled rows ARE the midpoint-rule finite-volume
discretisation of  alpha dphi/dt + div(u phi) - div(D grad phi) + beta phi = gamma  in the grid's coordinate system)."""
import itertools
import numpy as np
import pyfvtool as pf
from .. import scen, ops, symnp

META = {
    'level': 'proof',
    'functions': ['pdesolver.solvePDE', 'advection.convectionUpwindTerm* (first-order form)', 'source.transientTerm/linearSourceTerm/constantSourceTerm', 'diffusion.diffusionTerm*',
                  'advection.convectionTerm*', 'advection.convectionUpwindTerm*', 'boundary.boundaryConditionsTerm*', 'mesh.*'],
    'bounds': 'all 9 grid classes; dims 1-D [2],[3], 2-D (2,2),(3,2), 3-D (2,2,2); manufactured solutions p with symbolic coefficients: (E-lin) '
              'affine in every coordinate on ARBITRARY non-uniform faces, (E-quad) quadratic in every coordinate on uniform spacing h (symbolic, '
              'symbolic origin: every resolution and position at once); face-wise symbolic D(x), u(x), cell-wise beta, gamma, alpha, old; Robin '
              'data a, b symbolic per boundary face with c := a dp/dn + b p evaluated at the boundary face (Dirichlet and Neumann are points of it)',
    'outside': 'upwind consistency in 2-D/3-D is decided for velocity fields of one sign per run (all positive / all negative; mixed signs per face are C05\'s face basis); the asymptotic statement "error decreases at the order of the scheme for general smooth solutions" is a limit over float solves '
               'of growing size: not reachable by a bounded symbolic run. What is decided: every interior row equals the reference finite-volume '
               'balance (1/V) sum +-A_f (u_f p(x_f) - D_f dp/dn(x_f)) + ... built from the independent geometry oracle and the exact p, dp/dn at '
               'face centres, and every boundary row is the Robin relation at the face; midpoint-rule consistency (O(h^2)) + the M-matrix stability '
               'of C07 give convergence by the Lax argument (mathematics, not a solver verdict). SphericalGrid3D is compared with the textbook '
               'pointwise form (1/(r^2 dr)) d(r^2 F), (1/(r sin dtheta)) d(sin F), (1/(r sin dphi)) dF, which is what it implements',
    'assumptions': ['exact p is a polynomial, so dp/dn and p at face centres are evaluated in closed form by the harness'],
    'trusted_base': ['geometric oracle pv/scen.py:Geo', 'reference flux balance in pv/props/c02.py:_reference_row'],
}


class Poly:
    """p(x) = c0 + sum_ax (c1_ax x_ax + c2_ax x_ax^2) with symbolic coefficients"""

    def __init__(self, ctx, nd, degree):
        self.c0 = ctx.real('pc0')
        self.c1 = [ctx.real('pc1_%d' % a) for a in range(nd)]
        self.c2 = [ctx.real('pc2_%d' % a) if degree == 2 else 0.0 for a in range(nd)]

    def val(self, x):
        v = self.c0
        for a, xa in enumerate(x):
            v = v + self.c1[a] * xa + self.c2[a] * xa * xa
        return v

    def d(self, ax, x):
        return self.c1[ax] + 2 * self.c2[ax] * x[ax]


def _centres(fs):
    out = []
    for f in fs:
        f = scen.flat(f)
        c = [(f[i] + f[i + 1]) / 2 for i in range(len(f) - 1)]
        out.append([f[0] - (f[1] - f[0]) / 2] + c + [f[-1] + (f[-1] - f[-2]) / 2])
    return out


def _reference_row(ctx, geo, g, cc, fs, cent, p, Dv, uv, upwind=False, dims=None):
    """(1/V) sum_f +-A_f (u_f p(x_f) - D_f dp/dn(x_f)) for interior cell cc (full index) from the independent oracle"""
    nd = len(cc)
    i0 = tuple(k - 1 for k in cc)
    cs = scen.GRIDS[g][2]
    tot = ctx.const(0)
    for ax in range(nd):
        for side, fpos in ((-1, i0[ax]), (1, i0[ax] + 1)):
            fidx = tuple(fpos if b == ax else i0[b] for b in range(nd))
            x = [scen.flat(fs[b])[fpos] if b == ax else cent[b][cc[b]] for b in range(nd)]
            met = geo.metric(ax, i0)
            uf = scen.fcomp(uv, ax)[fidx]
            pface = p.val(x)
            if upwind:
                # first-order upwind: the face carries the DONOR cell-centre value (the boundary-face value on inflow boundary faces)
                xlo = list(x); xhi = list(x)
                lo_ghost = fpos == 0; hi_ghost = fpos == dims[ax]
                xlo[ax] = x[ax] if lo_ghost else cent[ax][fpos]
                xhi[ax] = x[ax] if hi_ghost else cent[ax][fpos + 1]
                pface = ctx.where(uf > 0, p.val(xlo), ctx.where(uf < 0, p.val(xhi), p.val(x)))
            F = uf * pface - scen.fcomp(Dv, ax)[fidx] * p.d(ax, x) / met
            if cs == 'sph3':
                rP = geo.centre(0, i0[0]); thP = geo.centre(1, i0[1])
                if ax == 0:
                    r = x[0]
                    w = r * r / (rP * rP * geo.d(0, i0[0]))
                elif ax == 1:
                    w = ctx.fn('sin', x[1]) / (rP * ctx.fn('sin', thP) * geo.d(1, i0[1]))
                else:
                    w = 1.0 / (rP * ctx.fn('sin', thP) * geo.d(2, i0[2]))
                tot = tot + side * w * F
            else:
                tot = tot + side * _weight(ctx, geo, g, ax, fidx, i0, x) * F
    return tot


def consistency(ctx, g, dims, degree, scheme='central', usign=0):
    nd = len(dims)
    uniform = degree == 2
    m, fs = scen.mesh(ctx, g, dims, uniform=uniform)
    geo = scen.Geo(ctx, g, fs)
    cent = _centres(fs)
    p = Poly(ctx, nd, degree)
    BC = pf.BoundaryConditions(m)
    for sd in scen.sides_of(g):
        f = getattr(BC, sd)
        f.a[:] = ctx.arr(sd + 'a', f.a.shape); f.b[:] = ctx.arr(sd + 'b', f.b.shape)
    # boundary data c := a dp/dn + b p at the boundary face (derivative in the positive coordinate direction, incl. metric)
    for ax in range(nd):
        for k, sd in enumerate((scen.SIDES[2 * ax], scen.SIDES[2 * ax + 1])):
            f = getattr(BC, sd)
            a = np.asarray(f.a); b = np.asarray(f.b)
            cshape = f.c.shape
            cnew = np.empty(a.shape, dtype=object)
            for idx in itertools.product(*[range(q) for q in a.shape]):
                oth = [b_ for b_ in range(nd) if b_ != ax]
                cellidx = [None] * nd
                cellidx[ax] = 1 if k == 0 else dims[ax]
                if nd > 1:
                    for b_, q in zip(oth, idx):
                        cellidx[b_] = q + 1
                i0 = tuple(q - 1 for q in cellidx)
                x = [(scen.flat(fs[ax])[0 if k == 0 else dims[ax]]) if b_ == ax else cent[b_][cellidx[b_]] for b_ in range(nd)]
                cnew[idx] = a[idx] * p.d(ax, x) / geo.metric(ax, i0) + b[idx] * p.val(x)
            cn = symnp.symarray(cnew) if ctx.sym else cnew.astype(float)
            f.c[:] = cn.reshape(cshape)
    old = ctx.arr('o', tuple(dims))
    phi = pf.CellVariable(m, old, BC)
    Dv = scen.facevar(ctx, m, 'D')
    uv = scen.facevar(ctx, m, 'u') if not usign else (scen.facevar(ctx, m, 'u', 'pos') if usign > 0 else -scen.facevar(ctx, m, 'u', 'pos'))
    beta = scen.cellvar(ctx, m, 'be'); gam = scen.cellvar(ctx, m, 'ga')
    alpha = scen.cellvar(ctx, m, 'al', 'pos'); dt = ctx.real('dt', 'pos')
    # exact samples at all cell centres incl. mirrored ghost centres
    samp = np.empty(scen.full_shape(dims), dtype=object)
    for cc in scen.all_cells(dims):
        samp[cc] = p.val([cent[b][cc[b]] for b in range(nd)])
    samp = samp if ctx.sym else samp.astype(float)
    lift = (lambda n: symnp.symarray(samp.ravel())) if ctx.sym else None
    sol = scen.Solver(ctx, lift=lift)
    if scheme == 'central':
        pf.solvePDE(phi, [pf.transientTerm(phi, dt, alpha), pf.convectionTerm(uv), -pf.diffusionTerm(Dv), pf.linearSourceTerm(beta),
                          pf.constantSourceTerm(gam)], externalsolver=sol)
    else:
        # upwind scenario: only the convective flux form is at stake (everything else is decided by the central scenario)
        pf.solvePDE(phi, [pf.convectionUpwindTerm(uv), pf.constantSourceTerm(gam)], externalsolver=sol)
    rows = scen.mat_rows(sol.M)
    xs = scen.flat(samp)
    G = scen.cell_index(dims)
    tag = 'C02/%s/%s/%s%s%s' % (g, 'x'.join(map(str, dims)), 'E-lin' if degree == 1 else 'E-quad', '' if scheme == 'central' else '/upwind',
                               '' if not usign else ('/upos' if usign > 0 else '/uneg'))
    av = np.asarray(alpha.value); bv = np.asarray(beta.value); gv = np.asarray(gam.value)
    for cc in scen.interior_cells(dims):
        r = int(G[cc]); i0 = tuple(q - 1 for q in cc)
        res = scen.matvec_row(rows, r, xs, ctx) - sol.RHS[r]
        ref = av[i0] * (samp[cc] - old[i0]) / dt + bv[i0] * samp[cc] - gv[i0]
        if scheme == 'upwind':
            ref = -gv[i0] + _reference_row(ctx, geo, g, cc, fs, cent, p, _zero_u(ctx, m, Dv), uv, upwind=True, dims=dims)
            ctx.eq('%s/interior/%s' % (tag, '_'.join(map(str, cc))), res, ref, rel=0.0)
        elif degree == 1:
            ref = ref + _reference_row(ctx, geo, g, cc, fs, cent, p, Dv, uv, upwind=False, dims=dims)
            ctx.eq('%s/interior/%s' % (tag, '_'.join(map(str, cc))), res, ref, rel=0.0)
        else:
            # quadratic on uniform spacing: the diffusive flux is still exact (central difference of a quadratic);
            # the convective face value is the linear interpolant: p(x_f) + c2 h^2/4 exactly
            Dref = _reference_row(ctx, geo, g, cc, fs, cent, p, Dv, _zero_u(ctx, m, uv))
            conv = ctx.const(0)
            for ax in range(nd):
                h = scen.flat(fs[ax])[1] - scen.flat(fs[ax])[0]
                for side, fpos in ((-1, i0[ax]), (1, i0[ax] + 1)):
                    fidx = tuple(fpos if b == ax else i0[b] for b in range(nd))
                    x = [scen.flat(fs[b])[fpos] if b == ax else cent[b][cc[b]] for b in range(nd)]
                    pf_ = p.val(x) + p.c2[ax] * h * h / 4
                    F = scen.fcomp(uv, ax)[fidx] * pf_
                    conv = conv + side * _weight(ctx, geo, g, ax, fidx, i0, x) * F
            ctx.eq('%s/interior/%s' % (tag, '_'.join(map(str, cc))), res, ref + Dref + conv,
                   rel=0.0)
    # boundary rows: the Robin relation at the face for the exact samples
    for cc in scen.all_cells(dims):
        if scen.n_out(cc, dims) != 1 or scheme == 'upwind':
            continue
        r = int(G[cc])
        res = scen.matvec_row(rows, r, xs, ctx) - sol.RHS[r]
        if degree == 1:
            ctx.eq('%s/boundary/%s' % (tag, '_'.join(map(str, cc))), res, 0.0)
        else:
            # quadratic: difference quotient exact, face average off by c2 h^2/4 -> residual = +- b c2 h^2/4 (second order)
            ax = [b for b, (k, n) in enumerate(zip(cc, dims)) if k == 0 or k == n + 1][0]
            h = scen.flat(fs[ax])[1] - scen.flat(fs[ax])[0]
            sd = scen.SIDES[2 * ax + (0 if cc[ax] == 0 else 1)]
            f = getattr(phi.BCs, sd)
            idx = tuple(k - 1 for b, k in enumerate(cc) if b != ax)
            bb = np.asarray(f.b)
            bval = bb.reshape(-1)[0] if nd == 1 else (bb.reshape(-1)[idx[0]] if nd == 2 else bb[idx])
            sgn = -1.0 if cc[ax] == 0 else 1.0
            ctx.eq('%s/boundary/%s' % (tag, '_'.join(map(str, cc))), res, sgn * bval * p.c2[ax] * h * h / 4)


def _zero_u(ctx, m, uv):
    return scen.facevar_from(ctx, m, [c * 0.0 for c in (uv._xvalue, uv._yvalue, uv._zvalue)[:len(m.dims)]])


def _weight(ctx, geo, g, ax, fidx, i0, x):
    cs = scen.GRIDS[g][2]
    if cs == 'sph3':
        rP = geo.centre(0, i0[0]); thP = geo.centre(1, i0[1])
        if ax == 0:
            return x[0] * x[0] / (rP * rP * geo.d(0, i0[0]))
        if ax == 1:
            return ctx.fn('sin', x[1]) / (rP * ctx.fn('sin', thP) * geo.d(1, i0[1]))
        return 1.0 / (rP * ctx.fn('sin', thP) * geo.d(2, i0[2]))
    if cs == 'sph':
        # shell: A/V = r_f^2 / ((r2^3 - r1^3)/3); the library writes the factor as the double 1/3 (mirrored here so that the
        # comparison is not about the last bit of a literal)
        r1, r2 = geo.fs[0][i0[0]], geo.fs[0][i0[0] + 1]
        return x[0] * x[0] / ((1 / 3) * (r2 * r2 * r2 - r1 * r1 * r1))
    return geo.area(ax, fidx) / geo.volume(i0)


def scenarios(tier):
    T = []
    D = {1: [[2], [3]], 2: [[2, 2], [2, 3]], 3: [[2, 2, 2], [1, 2, 3]]}
    if tier == 'thorough':
        D = {1: [[1], [2], [3], [4]], 2: [[2, 2], [3, 2], [1, 2]], 3: [[2, 2, 2], [2, 1, 2]]}
    for g in scen.ALL:
        nd = scen.ndim(g)
        for dims in D[nd]:
            for deg in (1, 2):
                T.append({'name': 'consistency/%s/%s/deg%d' % (g, 'x'.join(map(str, dims)), deg), 'fn': 'pv.props.c02:consistency',
                          'params': {'g': g, 'dims': dims, 'degree': deg}, 'timeout': 120 if g == 'SphericalGrid3D' else 60, 'validate': 1})
            # upwind: exact with the donor-centre value, i.e. first-order consistent (remainder u c1 (x_f - x_donor))
            for us in ((0,) if nd == 1 else (1, -1)):
                T.append({'name': 'consistency/%s/%s/deg1/upwind%s' % (g, 'x'.join(map(str, dims)), {0: '', 1: '/upos', -1: '/uneg'}[us]),
                          'fn': 'pv.props.c02:consistency',
                          'params': {'g': g, 'dims': dims, 'degree': 1, 'scheme': 'upwind', 'usign': us}, 'timeout': 60, 'validate': 1,
                          'solvers': ('z3new', 'z3', 'cvc5') if nd > 1 else ('z3', 'z3new')})
    T.sort(key=lambda t: -int(np.prod(t['params']['dims'])) - (100 if 'Spherical' in t['name'] else 0))
    return T
