"""C07 Discrete maximum principle: no overshoot, no negative concentrations."""
import itertools
import numpy as np
import pyfvtool as pf
from .. import scen, ops

META = {
    'level': 'proof',
    'functions': ['pdesolver.solvePDE', 'source.transientTerm', 'source.linearSourceTerm', 'diffusion.diffusionTerm*',
                  'advection.convectionUpwindTerm*', 'calculus.divergenceTerm*', 'boundary.boundaryConditionsTerm*', 'boundary.BoundaryFace.fixedValue'],
    'bounds': 'row structure (S1-S4): all 9 grid classes, dims 1-D [1],[2],[3], 2-D (2,2),(3,2),(2,3), 3-D (2,2,2),(3,2,2) with D >= 0, u, beta >= 0, '
              'old, dt, alpha > 0 all symbolic, BC per side Dirichlet / no-flux / periodic (4 configurations); code-independent M-matrix lemma for '
              'stencil sizes k in {2,4,6} and every split of the neighbours into interior / Dirichlet-ghost / no-flux-ghost; whole-system form through the real code '
              '(hypothesis M x = RHS) on 1-D N<=2 (N=3 and the 2-D grids (1,1), (1,2) attempted as optional obligations); abstract composition on chains of up to 5 (quick) / 8 '
              '(thorough) cells and 2-D grids 2x2 (quick) / 3x3 (thorough) with coefficients constrained only by S1-S4',
    'outside': 'the finite-maximum composition step (if the maximum over the interior cells is attained at i, S1-S4 instantiate the lemma at row i) is '
               'a one-line argument, cross-checked by the whole-system queries; with a sink beta > 0 the range is the one spanned by old values, '
               'Dirichlet data AND 0 (a sink pulls towards 0; for beta = 0 the range is exactly old values and Dirichlet data); periodic axes with '
               'unequal end cells (ghost elimination is then not a convex combination: C03 finding); larger cell counts',
    'assumptions': ['divergenceTerm(u) = 0 (the library\'s own discrete divergence) is the hypothesis "discretely divergence-free"'],
    'trusted_base': [],
}

CONFIGS = ('dirichlet', 'noflux', 'mixed', 'periodic')


def _setup(ctx, g, dims, config):
    nd = len(dims)
    m, fs = scen.mesh(ctx, g, dims)
    old = ctx.arr('o', tuple(dims))
    phi = pf.CellVariable(m, old)
    kind = {}
    cvals = []
    for ax in range(nd):
        lo_s, hi_s = scen.SIDES[2 * ax], scen.SIDES[2 * ax + 1]
        if config == 'periodic' and scen.periodic_ok(g, ax):
            getattr(phi.BCs, lo_s).periodic = True
            ctx.assume((fs[ax][1] - fs[ax][0]) == (fs[ax][dims[ax]] - fs[ax][dims[ax] - 1]))
            kind[lo_s] = kind[hi_s] = 'periodic'
            continue
        for sd, which in ((lo_s, 'lo'), (hi_s, 'hi')):
            if config in ('dirichlet', 'periodic') or (config == 'mixed' and which == 'lo'):
                f = getattr(phi.BCs, sd)
                c = ctx.arr(sd + 'c', f.c.shape)
                f.fixedValue(c)
                kind[sd] = 'dirichlet'
                cvals += scen.flat(c)
            else:
                kind[sd] = 'noflux'
    dt = ctx.real('dt', 'pos'); al = ctx.real('al', 'pos')
    D = scen.facevar(ctx, m, 'D', 'nonneg')
    u = scen.facevar(ctx, m, 'u')
    beta = scen.cellvar(ctx, m, 'be', 'nonneg')
    return m, fs, phi, old, kind, cvals, dt, al, D, u, beta


def rows(ctx, g, dims, config, star=None, step2=True):
    nd = len(dims)
    m, fs, phi, old, kind, cvals, dt, al, D, u, beta = _setup(ctx, g, dims, config)
    if star is not None:
        star = tuple(star)
        for ax in range(nd):
            for F in (D, u):
                comp = scen.fcomp(F, ax)
                for fidx in itertools.product(*[range(q) for q in comp.shape]):
                    lo_, hi_ = ops.adj(ax, fidx)
                    if lo_ != star and hi_ != star:
                        comp[fidx] = 0.0
    if config == 'periodic':
        for ax in range(nd):
            if scen.periodic_ok(g, ax):
                for F in (D, u):
                    comp = scen.fcomp(F, ax)
                    lo = [slice(None)] * nd; lo[ax] = 0
                    hi = [slice(None)] * nd; hi[ax] = -1
                    comp[tuple(hi)] = comp[tuple(lo)]
    div = pf.divergenceTerm(u)
    sol = scen.Solver(ctx)
    pf.solvePDE(phi, [pf.transientTerm(phi, dt, al), -pf.diffusionTerm(D), pf.convectionUpwindTerm(u), pf.linearSourceTerm(beta)],
                externalsolver=sol)
    G = scen.cell_index(dims)
    R = scen.mat_rows(sol.M)
    tag = 'C07/%s/%s/rows/%s%s' % (g, 'x'.join(map(str, dims)), config, ('/star' + ''.join(map(str, star))) if star else '')
    bv = np.asarray(beta.value)
    for cc in scen.interior_cells(dims):
        r = int(G[cc]); i0 = tuple(q - 1 for q in cc)
        nm = '_'.join(map(str, cc))
        ssum = ctx.const(0)
        for ax in range(nd):
            for dlt in (-1, 1):
                c2 = list(cc); c2[ax] += dlt
                j = int(G[tuple(c2)])
                ctx.le('%s/S1_offdiag_nonpositive/%s/%s%+d' % (tag, nm, scen.AX[ax], dlt), scen.mat_get(sol.M, r, j), 0.0)
        stencil = {int(G[tuple(c2)]) for ax in range(nd) for dlt in (-1, 0, 1) for c2 in [tuple(k + (dlt if b == ax else 0) for b, k in enumerate(cc))]}
        stray = [j for j, v in R.get(r, []) if j not in stencil and not ctx.is_zero_term(v)]
        ctx.fact('%s/S1_stencil/%s' % (tag, nm), not stray, 'entries outside the 3-point stencil: %s' % stray[:3])
        for j, v in R.get(r, []):
            ssum = ssum + v
        ctx.eq('%s/S2_rowsum/%s' % (tag, nm), ssum, al / dt + bv[i0] + div[r], timeout=90)
        ctx.eq('%s/S3_rhs/%s' % (tag, nm), sol.RHS[r], al * old[i0] / dt)
    # second step: the terms are assembled again from the SAME coefficient objects (time loop); the rows must keep the structure
    sol2 = scen.Solver(ctx, 'y')
    if not step2:
        sol2 = None
    phi_prev = np.array(np.asarray(phi.value).view(np.ndarray)) if ctx.sym else np.array(phi.value)
    if step2:
        pf.solvePDE(phi, [pf.transientTerm(phi, dt, al), -pf.diffusionTerm(D), pf.convectionUpwindTerm(u), pf.linearSourceTerm(beta)],
                    externalsolver=sol2)
    R2 = scen.mat_rows(sol2.M) if step2 else {}
    for cc in (scen.interior_cells(dims) if step2 else []):
        r = int(G[cc]); i0 = tuple(q - 1 for q in cc)
        nm = '_'.join(map(str, cc))
        ssum = ctx.const(0)
        for j, v in R2.get(r, []):
            ssum = ssum + v
        for ax in range(nd):
            for dlt in (-1, 1):
                c2 = list(cc); c2[ax] += dlt
                ctx.le('%s/step2/S1_offdiag_nonpositive/%s/%s%+d' % (tag, nm, scen.AX[ax], dlt), scen.mat_get(sol2.M, r, int(G[tuple(c2)])), 0.0)
        ctx.eq('%s/step2/S2_rowsum/%s' % (tag, nm), ssum, al / dt + bv[i0] + div[r], timeout=90)
        ctx.eq('%s/step2/S3_rhs/%s' % (tag, nm), sol2.RHS[r], al * phi_prev[i0] / dt)
    # S4: ghost rows
    for cc in scen.all_cells(dims):
        if scen.n_out(cc, dims) != 1:
            continue
        ax = [b for b, (k, n) in enumerate(zip(cc, dims)) if k == 0 or k == n + 1][0]
        side = scen.SIDES[2 * ax + (0 if cc[ax] == 0 else 1)]
        inner = list(cc); inner[ax] = 1 if cc[ax] == 0 else dims[ax]
        r = int(G[cc]); ri = int(G[tuple(inner)])
        nm = '_'.join(map(str, cc))
        dg, di = scen.mat_get(sol.M, r, r), scen.mat_get(sol.M, r, ri)
        others = [j for j, v in R.get(r, []) if j not in (r, ri) and not ctx.is_zero_term(v)]
        if kind[side] == 'noflux':
            ctx.fact('%s/S4_noflux_two_entries/%s' % (tag, nm), not others)
            ctx.eq('%s/S4_noflux_shape/%s' % (tag, nm), dg, -di)
            ctx.nonzero('%s/S4_noflux_nonsingular/%s' % (tag, nm), dg)
            ctx.eq('%s/S4_noflux_rhs/%s' % (tag, nm), sol.RHS[r], 0.0)
        elif kind[side] == 'dirichlet':
            f = getattr(phi.BCs, side)
            cidx = tuple(k - 1 for b, k in enumerate(inner) if b != ax)
            cv = np.asarray(f.c).reshape(-1) if nd < 3 else np.asarray(f.c)
            cval = cv[cidx[0]] if nd == 2 else (cv[0] if nd == 1 else cv[cidx])
            ctx.fact('%s/S4_dirichlet_two_entries/%s' % (tag, nm), not others)
            ctx.eq('%s/S4_dirichlet_shape/%s' % (tag, nm), dg, di)
            ctx.nonzero('%s/S4_dirichlet_nonsingular/%s' % (tag, nm), dg)
            ctx.eq('%s/S4_dirichlet_rhs/%s' % (tag, nm), sol.RHS[r], 2 * dg * cval)
        else:
            # periodic pair: the two rows of the axis together force ghost = opposite end cell
            first = list(cc); first[ax] = 1
            last = list(cc); last[ax] = dims[ax]
            g0 = list(cc); g0[ax] = 0
            g1 = list(cc); g1[ax] = dims[ax] + 1
            x = sol.x
            r0, r1 = int(G[tuple(g0)]), int(G[tuple(g1)])
            hy = [scen.matvec_row(R, r0, x, ctx) == sol.RHS[r0], scen.matvec_row(R, r1, x, ctx) == sol.RHS[r1]] if ctx.sym else []
            tgt = last if cc[ax] == 0 else first
            ctx.eq('%s/S4_periodic_image/%s' % (tag, nm), x[r], x[int(G[tuple(tgt)])], pre=hy)


def lemma(ctx, n_int, n_dir, n_nf, sink):
    """code-independent M-matrix lemma.  Row:  (s - sum a_j) x + sum a_j y_j = td * o,  a_j <= 0,
    s = td + beta, td > 0, beta >= 0 (sink) or = 0;  interior neighbours y_j <= X (X = x: the maximum is attained here),
    Dirichlet ghosts y = 2c - x, no-flux ghosts y = x.   Then x <= max(o, c..., [0 if sink])  (and dually for the minimum)."""
    td = ctx.real('td', 'pos')
    beta = ctx.real('beta', 'nonneg') if sink else ctx.const(0)
    x = ctx.real('x'); o = ctx.real('o')
    k = n_int + n_dir + n_nf
    a = [ctx.real('a%d' % j) for j in range(k)]
    for aj in a:
        ctx.assume(aj <= 0)
    yi = [ctx.real('y%d' % j) for j in range(n_int)]
    c = [ctx.real('c%d' % j) for j in range(n_dir)]
    ys = yi + [2 * cj - x for cj in c] + [x] * n_nf
    sa = ctx.const(0); say = ctx.const(0)
    for aj, yj in zip(a, ys):
        sa = sa + aj; say = say + aj * yj
    row = (td + beta - sa) * x + say == td * o
    tag = 'C07/lemma/int%d_dir%d_nf%d/%s' % (n_int, n_dir, n_nf, 'sink' if sink else 'nosink')
    # "x <= max(values)" is stated as: for every upper bound Mhi of the values, x <= Mhi (equivalent, and free of nested ite)
    vals = [o] + c + ([ctx.const(0)] if sink else [])
    Mhi = ctx.real('Mhi'); Mlo = ctx.real('Mlo')
    ctx.holds(tag + '/max', x <= Mhi, pre=[row] + [y <= x for y in yi] + [v <= Mhi for v in vals])
    ctx.holds(tag + '/min', x >= Mlo, pre=[row] + [y >= x for y in yi] + [v >= Mlo for v in vals])


def whole(ctx, g, dims, config, sink):
    """whole-system form on small grids: M x = RHS (all rows incl. boundary rows) => every interior value within the range"""
    nd = len(dims)
    m, fs, phi, old, kind, cvals, dt, al, D, u, beta = _setup(ctx, g, dims, config)
    if not sink:
        beta = pf.CellVariable(m, 0.0)
    if config == 'periodic':
        for ax in range(nd):
            if scen.periodic_ok(g, ax):
                for F in (D, u):
                    comp = scen.fcomp(F, ax)
                    lo = [slice(None)] * nd; lo[ax] = 0
                    hi = [slice(None)] * nd; hi[ax] = -1
                    comp[tuple(hi)] = comp[tuple(lo)]
    div = pf.divergenceTerm(u)
    G = scen.cell_index(dims)
    for cc in scen.interior_cells(dims):
        d = div[int(G[cc])]
        if not ctx.is_zero_term(d):
            ctx.assume(d == 0, 'discretely divergence-free')
    sol = scen.Solver(ctx)
    pf.solvePDE(phi, [pf.transientTerm(phi, dt, al), -pf.diffusionTerm(D), pf.convectionUpwindTerm(u), pf.linearSourceTerm(beta)],
                externalsolver=sol)
    hy = sol.hyps()
    vals = scen.flat(old) + cvals + ([ctx.const(0)] if sink else [])
    tag = 'C07/%s/%s/whole/%s/%s' % (g, 'x'.join(map(str, dims)), config, 'sink' if sink else 'nosink')
    if ctx.sym:
        Mhi = ctx.real('Mhi'); Mlo = ctx.real('Mlo')
        up = [v <= Mhi for v in vals]; dn = [v >= Mlo for v in vals]
    else:
        Mhi = max(vals); Mlo = min(vals)
        Mhi = Mhi + 1e-9 * (1 + abs(Mhi)); Mlo = Mlo - 1e-9 * (1 + abs(Mlo))
        up = dn = []
    for cc in scen.interior_cells(dims):
        xi = sol.x[int(G[cc])]
        req = int(np.prod(dims)) <= 2 and len(dims) == 1      # 2-D and larger systems: attempted, counted as optional (decidable but not reliably within the time limit)
        ctx.holds('%s/upper/%s' % (tag, '_'.join(map(str, cc))), xi <= Mhi, pre=hy + up, timeout=60, required=req)
        ctx.holds('%s/lower/%s' % (tag, '_'.join(map(str, cc))), xi >= Mlo, pre=hy + dn, timeout=60, required=req)


def compose(ctx, n, left, right, sink):
    """composition step on an abstract 1-D chain of n cells: coefficients are fresh variables constrained ONLY by the
    facts S1-S4 proved on the real rows (off-diagonals <= 0, row sum s_i = td_i + beta_i, RHS = td_i o_i, ghost shapes);
    conclusion: every x_i lies in the range of old values, Dirichlet data (and 0 with a sink)."""
    x = [ctx.real('x%d' % i) for i in range(n + 2)]
    o = [ctx.real('o%d' % i) for i in range(n + 2)]
    cs = []
    hy = []
    for side, gi, ii in ((left, 0, 1), (right, n + 1, n)):
        if side == 'dirichlet':
            c = ctx.real('c%d' % gi); cs.append(c)
            hy.append(x[gi] == 2 * c - x[ii])
        else:
            hy.append(x[gi] == x[ii])
    for i in range(1, n + 1):
        td = ctx.real('td%d' % i, 'pos')
        be = ctx.real('be%d' % i, 'nonneg') if sink else ctx.const(0)
        aw = ctx.real('aw%d' % i); ae = ctx.real('ae%d' % i)
        ctx.assume(aw <= 0); ctx.assume(ae <= 0)
        hy.append((td + be - aw - ae) * x[i] + aw * x[i - 1] + ae * x[i + 1] == td * o[i])
    vals = o[1:n + 1] + cs + ([ctx.const(0)] if sink else [])
    Mhi = ctx.real('Mhi'); Mlo = ctx.real('Mlo')
    tag = 'C07/compose/n%d/%s_%s/%s' % (n, left, right, 'sink' if sink else 'nosink')
    for i in range(1, n + 1):
        ctx.holds('%s/upper/%d' % (tag, i), x[i] <= Mhi, pre=hy + [v <= Mhi for v in vals], timeout=90)
        ctx.holds('%s/lower/%d' % (tag, i), x[i] >= Mlo, pre=hy + [v >= Mlo for v in vals], timeout=90)


def compose2d(ctx, nx, ny, xkind, ykind, sink):
    """abstract nx x ny grid, 5-point rows with fresh coefficients constrained only by S1-S4; ghost kinds per axis:
    'dirichlet' (y = 2c - x), 'noflux' (y = x) or 'periodic' (y = opposite end cell)"""
    x = {(i, j): ctx.real('x%d_%d' % (i, j)) for i in range(nx) for j in range(ny)}
    o = {(i, j): ctx.real('o%d_%d' % (i, j)) for i in range(nx) for j in range(ny)}
    cs = []
    hy = []

    def nb(i, j, di, dj):
        i2, j2 = i + di, j + dj
        if 0 <= i2 < nx and 0 <= j2 < ny:
            return x[(i2, j2)]
        kind = xkind if di else ykind
        if kind == 'periodic':
            return x[(i2 % nx, j2 % ny)]
        if kind == 'noflux':
            return x[(i, j)]
        c = ctx.real('c%d_%d_%d_%d' % (i, j, di + 1, dj + 1)); cs.append(c)
        return 2 * c - x[(i, j)]
    for i in range(nx):
        for j in range(ny):
            td = ctx.real('td%d_%d' % (i, j), 'pos')
            be = ctx.real('be%d_%d' % (i, j), 'nonneg') if sink else ctx.const(0)
            acc = ctx.const(0); sa = ctx.const(0)
            for k, (di, dj) in enumerate(((-1, 0), (1, 0), (0, -1), (0, 1))):
                a = ctx.real('a%d_%d_%d' % (i, j, k)); ctx.assume(a <= 0)
                acc = acc + a * nb(i, j, di, dj); sa = sa + a
            hy.append((td + be - sa) * x[(i, j)] + acc == td * o[(i, j)])
    vals = list(o.values()) + cs + ([ctx.const(0)] if sink else [])
    Mhi = ctx.real('Mhi'); Mlo = ctx.real('Mlo')
    tag = 'C07/compose2d/%dx%d/%s_%s/%s' % (nx, ny, xkind, ykind, 'sink' if sink else 'nosink')
    for (i, j), xv in x.items():
        ctx.holds('%s/upper/%d_%d' % (tag, i, j), xv <= Mhi, pre=hy + [v <= Mhi for v in vals], timeout=120)
        ctx.holds('%s/lower/%d_%d' % (tag, i, j), xv >= Mlo, pre=hy + [v >= Mlo for v in vals], timeout=120)


def scenarios(tier):
    T = []
    D = {1: [[1], [2], [3]], 2: [[2, 2], [3, 2]], 3: [[2, 2, 2], [1, 2, 3]]}
    if tier == 'thorough':
        D = {1: [[1], [2], [3], [4]], 2: [[2, 2], [3, 2], [2, 3], [1, 3]], 3: [[2, 2, 2], [3, 2, 2], [2, 2, 3]]}
    for g in scen.ALL:
        nd = scen.ndim(g)
        for dims in D[nd]:
            for cf in CONFIGS:
                if cf == 'periodic' and not any(scen.periodic_ok(g, ax) for ax in range(nd)):
                    continue
                if tier == 'quick' and dims == [1, 2, 3] and (cf != 'dirichlet' or g == 'SphericalGrid3D'):
                    continue
                stars = [None]
                if g == 'SphericalGrid3D':
                    # full symbolic coefficient fields only on (2,2,2) (undecided within 120 s on larger SphericalGrid3D grids); elsewhere
                    # the fields are symbolic on the faces of one cell at a time
                    stars = [[1, 1, 1], [2, 2, 2]] if tier == 'quick' else ([None, [1, 1, 1], [2, 2, 2], [2, 1, 2]] if dims == [2, 2, 2] else [[1, 1, 1]])
                for st in stars:
                    T.append({'name': 'rows/%s/%s/%s%s' % (g, 'x'.join(map(str, dims)), cf, '/star' + ''.join(map(str, st)) if st else ''),
                              'fn': 'pv.props.c07:rows', 'params': {'g': g, 'dims': dims, 'config': cf, 'star': st,
                                                                 'step2': not (tier == 'quick' and g == 'SphericalGrid3D')},
                              'timeout': (30 if tier == 'quick' or g != 'SphericalGrid3D' else 90) if st or g != 'SphericalGrid3D' else 120, 'validate': 1})
    for k in (2, 4, 6):
        for n_dir in range(0, k + 1):
            for n_nf in range(0, k - n_dir + 1):
                for sink in (False, True):
                    T.append({'name': 'lemma/k%d/dir%d_nf%d/%s' % (k, n_dir, n_nf, 'sink' if sink else 'nosink'), 'fn': 'pv.props.c07:lemma',
                              'params': {'n_int': k - n_dir - n_nf, 'n_dir': n_dir, 'n_nf': n_nf, 'sink': sink}, 'timeout': 60,
                              'validate': 0, 'batch': 1, 'crosscheck': tier == 'thorough', 'solvers': ('z3', 'z3new', 'cvc5')})
    for n in ((1, 2, 3, 4, 5) if tier == 'quick' else (1, 2, 3, 4, 5, 6, 7, 8)):
        for left, right in (('dirichlet', 'dirichlet'), ('dirichlet', 'noflux'), ('noflux', 'noflux')):
            for sink in (False, True):
                T.append({'name': 'compose/n%d/%s_%s/%s' % (n, left, right, 'sink' if sink else 'nosink'), 'fn': 'pv.props.c07:compose',
                          'params': {'n': n, 'left': left, 'right': right, 'sink': sink}, 'timeout': 90, 'validate': 0, 'batch': 1})
    for (nx, ny) in (((2, 2),) if tier == 'quick' else ((2, 2), (3, 2), (3, 3))):
        for xk, yk in (('dirichlet', 'dirichlet'), ('dirichlet', 'noflux'), ('noflux', 'periodic'), ('dirichlet', 'periodic')):
            for sink in (False, True):
                T.append({'name': 'compose2d/%dx%d/%s_%s/%s' % (nx, ny, xk, yk, 'sink' if sink else 'nosink'), 'fn': 'pv.props.c07:compose2d',
                          'params': {'nx': nx, 'ny': ny, 'xkind': xk, 'ykind': yk, 'sink': sink}, 'timeout': 120, 'validate': 0, 'batch': 1})
    W = {1: [[1], [2]], 2: []} if tier == 'quick' else {1: [[1], [2], [3]], 2: [[1, 1], [1, 2]]}
    for g in (['Grid1D', 'CylindricalGrid1D', 'SphericalGrid1D', 'Grid2D', 'PolarGrid2D'] if tier == 'quick' else scen.G1 + scen.G2):
        nd = scen.ndim(g)
        for dims in W[nd]:
            for cf in (('dirichlet', 'mixed', 'noflux') if tier == 'quick' else CONFIGS):
                if cf == 'periodic' and not any(scen.periodic_ok(g, ax) for ax in range(nd)):
                    continue
                for sink in ((True,) if tier == 'quick' else (False, True)):
                    T.append({'name': 'whole/%s/%s/%s/%s' % (g, 'x'.join(map(str, dims)), cf, 'sink' if sink else 'nosink'),
                              'fn': 'pv.props.c07:whole', 'params': {'g': g, 'dims': dims, 'config': cf, 'sink': sink}, 'timeout': 60,
                              'validate': 1, 'batch': 1})
    T.sort(key=lambda t: -int(np.prod(t['params'].get('dims', [1]))) - (100 if 'Spherical' in t['name'] else 0) - (200 if 'whole' in t['name'] else 0))
    return T
