"""C12 Time stepping: steady states are fixed points; limits dt->0 and dt->inf."""
import numpy as np
import pyfvtool as pf
from .. import scen, ops

META = {
    'level': 'proof',
    'functions': ['source.transientTerm', 'source.linearSourceTerm', 'source.constantSourceTerm', 'pdesolver.solvePDE',
                  'pdesolver.solveExplicitPDE', 'cell.CellVariable.__init__/apply_BCs/__truediv__/__mul__', 'diffusion.diffusionTerm*',
                  'advection.convectionTerm*', 'advection.convectionUpwindTerm*', 'boundary.*'],
    'bounds': 'all 9 grid classes; dims 1-D [2],[3], 2-D (2,2), 3-D (2,2,2); spatial term sets {-D}, {-D,U}, {C,L,G}, {-D,U,L,G}; alpha scalar or '
              'per-cell field (symbolic, positive), dt > 0 symbolic (every magnitude at once); BCs symbolic Robin on all sides or periodic',
    'closure': 'closure scenarios: the ghost layer reported after an implicit step satisfies the boundary rows of the assembled system (Robin, '
               'periodic with equal end cells), i.e. implicit and explicit steps use one boundary closure',
    'outside': 'the limits dt->0 / dt->infinity as limits (the row identity dt*row = alpha (x-old) + dt (S x - s) is proved; passing to '
               'the limit uses continuity + non-singularity, which is mathematics, not a solver verdict); multi-step sequences follow by '
               'induction on the one-step identities',
    'assumptions': [],
    'trusted_base': [],
}

SETS = {'diff': ['-D'], 'diff_upw': ['-D', 'U'], 'conv_src': ['C', 'L', 'G'], 'all': ['-D', 'U', 'L', 'G']}


def _spatial(ctx, m, names, D, u, beta, gam):
    out = []
    for nm in names:
        if nm == '-D': out.append(-pf.diffusionTerm(D))
        elif nm == 'U': out.append(pf.convectionUpwindTerm(u))
        elif nm == 'C': out.append(pf.convectionTerm(u))
        elif nm == 'L': out.append(pf.linearSourceTerm(beta))
        elif nm == 'G': out.append(pf.constantSourceTerm(gam))
    return out


def _setup(ctx, g, dims, periodic):
    nd = len(dims)
    m, fs = scen.mesh(ctx, g, dims)
    BC = pf.BoundaryConditions(m)
    per_ax = [ax for ax in range(nd) if scen.periodic_ok(g, ax)][-1] if periodic else None
    for ax in range(nd):
        if ax == per_ax:
            getattr(BC, scen.SIDES[2 * ax]).periodic = True
        else:
            scen.set_robin(ctx, BC, scen.SIDES[2 * ax])
            scen.set_robin(ctx, BC, scen.SIDES[2 * ax + 1])
    return m, fs, BC


def implicit_step(ctx, g, dims, tset, alpha_kind='scalar', periodic=False):
    m, fs, BC = _setup(ctx, g, dims, periodic)
    old = ctx.arr('o', tuple(dims))
    phi = pf.CellVariable(m, old, BC)
    phiS = pf.CellVariable(m, old, BC)
    D = scen.facevar(ctx, m, 'D'); u = scen.facevar(ctx, m, 'u')
    beta = scen.cellvar(ctx, m, 'be'); gam = scen.cellvar(ctx, m, 'ga')
    dt = ctx.real('dt', 'pos')
    if alpha_kind == 'scalar':
        al = ctx.real('al', 'pos')
        alv = np.full(tuple(dims), al, dtype=object if ctx.sym else float)
        alpha = al
    else:
        alpha = scen.cellvar(ctx, m, 'al', 'pos')
        alv = np.asarray(alpha.value)
    names = SETS[tset]
    spatial = _spatial(ctx, m, names, D, u, beta, gam)
    spatial2 = _spatial(ctx, m, names, D, u, beta, gam)
    tt = pf.transientTerm(phi, dt, alpha)
    sol = scen.Solver(ctx, 'x')
    solS = scen.Solver(ctx, 'x')        # same unknown names: the steady operator applied to the same x
    pf.solvePDE(phiS, spatial2, externalsolver=solS)
    pf.solvePDE(phi, [tt] + spatial, externalsolver=sol)
    G = scen.cell_index(dims)
    rows = scen.mat_rows(sol.M); rowsS = scen.mat_rows(solS.M)
    x = sol.x
    tag = 'C12/%s/%s/implicit/%s/%s%s' % (g, 'x'.join(map(str, dims)), tset, alpha_kind, '/periodic' if periodic else '')
    for cc in scen.interior_cells(dims):
        r = int(G[cc]); i0 = tuple(q - 1 for q in cc)
        res = scen.matvec_row(rows, r, x, ctx) - sol.RHS[r]
        resS = scen.matvec_row(rowsS, r, x, ctx) - solS.RHS[r]
        nm = '_'.join(map(str, cc))
        # backward Euler row:  alpha (x - old)/dt + (S x - s) ; multiplied by dt it is polynomial in dt
        ctx.eq('%s/row/%s' % (tag, nm), res, alv[i0] * (x[r] - old[i0]) / dt + resS)
        ctx.eq('%s/row_times_dt/%s' % (tag, nm), dt * res, alv[i0] * (x[r] - old[i0]) + dt * resS)
        # steady solutions are fixed points: residual at x = old is the steady residual (any dt, alpha)
        xo = list(x)
        xo[r] = old[i0]
        ctx.eq('%s/fixed_point/%s' % (tag, nm), scen.matvec_row(rows, r, xo, ctx) - sol.RHS[r],
               scen.matvec_row(rowsS, r, xo, ctx) - solS.RHS[r])
    # boundary rows are the same in both systems (no dt, alpha in them)
    for cc in scen.all_cells(dims):
        if scen.n_out(cc, dims) == 1:
            r = int(G[cc])
            ctx.eq('%s/bcrow/%s' % (tag, '_'.join(map(str, cc))), scen.matvec_row(rows, r, x, ctx) - sol.RHS[r],
                   scen.matvec_row(rowsS, r, x, ctx) - solS.RHS[r])


def explicit_step(ctx, g, dims, periodic=False):
    m, fs, BC = _setup(ctx, g, dims, periodic)
    old = ctx.arr('o', tuple(dims))
    phi = pf.CellVariable(m, old, BC)
    n = int(np.prod(scen.full_shape(dims)))
    R = ctx.arr('R', (n,))
    dt = ctx.real('dt', 'pos')
    before_val = phi._value
    before = scen.flat(phi._value)
    before_bc = {sd: [scen.flat(getattr(phi.BCs, sd).a), scen.flat(getattr(phi.BCs, sd).b), scen.flat(getattr(phi.BCs, sd).c),
                      getattr(phi.BCs, sd).periodic] for sd in scen.SIDES}
    new = pf.solveExplicitPDE(phi, dt, R)
    G = scen.cell_index(dims)
    tag = 'C12/%s/%s/explicit%s' % (g, 'x'.join(map(str, dims)), '/periodic' if periodic else '')
    for cc in scen.interior_cells(dims):
        ctx.eq('%s/update/%s' % (tag, '_'.join(map(str, cc))), new._value[cc], old[tuple(q - 1 for q in cc)] + dt * R[int(G[cc])])
    fresh = pf.CellVariable(m, np.array(new.value), BC)
    geo = scen.Geo(ctx, g, fs)
    nd = len(dims)
    for cc in scen.all_cells(dims):
        if scen.n_out(cc, dims) == 1:
            ctx.same_term('%s/ghost/%s' % (tag, '_'.join(map(str, cc))), new._value[cc], fresh._value[cc])
            # boundary values re-imposed: the Robin relation itself (not only agreement with a fresh variable)
            ax = [b for b, (k, n) in enumerate(zip(cc, dims)) if k == 0 or k == n + 1][0]
            side = scen.SIDES[2 * ax + (0 if cc[ax] == 0 else 1)]
            f = getattr(new.BCs, side)
            if f.periodic or getattr(new.BCs, scen.SIDES[2 * ax + (1 if cc[ax] == 0 else 0)]).periodic:
                continue
            inner = list(cc); inner[ax] = 1 if cc[ax] == 0 else dims[ax]
            inner = tuple(inner)
            idx = tuple(k - 1 for b, k in enumerate(inner) if b != ax)
            a_, b_, c_ = (np.asarray(x) for x in (f.a, f.b, f.c))
            pick = (lambda z: z.reshape(-1)[0]) if nd == 1 else ((lambda z: z.reshape(-1)[idx[0]]) if nd == 2 else (lambda z: z[idx]))
            av, bv, cv = pick(a_), pick(b_), pick(c_)
            i0 = tuple(k - 1 for k in inner)
            d = geo.d(ax, i0[ax]) * geo.metric(ax, i0)
            lo_v, hi_v = (new._value[cc], new._value[inner]) if cc[ax] == 0 else (new._value[inner], new._value[cc])
            gcoef = (-av / d + bv / 2) if cc[ax] == 0 else (av / d + bv / 2)
            ctx.eq('%s/robin/%s' % (tag, '_'.join(map(str, cc))), av * (hi_v - lo_v) / d + bv * (hi_v + lo_v) / 2, cv, pre=[gcoef != 0])
    # input untouched
    ctx.fact(tag + '/result_is_new_object', new is not phi and new._value is not phi._value and not np.shares_memory(new._value, phi._value))
    after = scen.flat(phi._value)
    for k, (a, b) in enumerate(zip(before, after)):
        ctx.same_term('%s/input_value/%d' % (tag, k), b, a)
    same_bc = all([scen.flat(getattr(phi.BCs, sd).a), scen.flat(getattr(phi.BCs, sd).b), scen.flat(getattr(phi.BCs, sd).c),
                   getattr(phi.BCs, sd).periodic][3] == before_bc[sd][3] for sd in scen.SIDES)
    ctx.fact(tag + '/input_bc_flags_kept', same_bc)
    for sd in scen.sides_of(g):
        f = getattr(phi.BCs, sd)
        for nm, arr, ref in (('a', f.a, before_bc[sd][0]), ('b', f.b, before_bc[sd][1]), ('c', f.c, before_bc[sd][2])):
            for k, (p, q) in enumerate(zip(scen.flat(arr), ref)):
                ctx.same_term('%s/input_bc/%s/%s/%d' % (tag, sd, nm, k), p, q)
    # the result remains usable by the implicit solver
    try:
        sol = scen.Solver(ctx)
        pf.solvePDE(new, [pf.linearSourceTerm(pf.CellVariable(m, 1.0))], externalsolver=sol)
        ok, why = True, ''
    except Exception as e:      # noqa
        ok, why = False, '%s: %s' % (type(e).__name__, e)
    ctx.fact(tag + '/result_usable_by_solvePDE', ok, why)


def implicit_vs_explicit(ctx, g, dims, tset):
    """x implicit (M x = RHS), y explicit for the same operator:  alpha (x - y)/dt = -(A (x - old)), A = matrix part of S"""
    m, fs, BC = _setup(ctx, g, dims, False)
    old = ctx.arr('o', tuple(dims))
    phi = pf.CellVariable(m, old, BC)
    D = scen.facevar(ctx, m, 'D'); u = scen.facevar(ctx, m, 'u')
    beta = scen.cellvar(ctx, m, 'be'); gam = scen.cellvar(ctx, m, 'ga')
    dt = ctx.real('dt', 'pos'); al = ctx.real('al', 'pos')
    names = SETS[tset]
    spatial = _spatial(ctx, m, names, D, u, beta, gam)
    # explicit: RHS = (s - S old)/alpha on interior rows
    A = None; svec = None
    for t in _spatial(ctx, m, names, D, u, beta, gam):
        if t.ndim == 2:
            A = t if A is None else A + t
        else:
            svec = t if svec is None else svec + t
    full_old = scen.flat(phi._value)
    G = scen.cell_index(dims)
    n = len(full_old)
    rowsA = scen.mat_rows(A)
    Rexp = [ctx.const(0)] * n
    for cc in scen.interior_cells(dims):
        r = int(G[cc])
        Rexp[r] = ((svec[r] if svec is not None else 0.0) - scen.matvec_row(rowsA, r, full_old, ctx)) / al
    Rarr = np.array(Rexp, dtype=object if ctx.sym else float)
    if ctx.sym:
        Rarr = scen.symnp.symarray(Rarr)
    y = pf.solveExplicitPDE(phi, dt, Rarr)
    sol = scen.Solver(ctx)
    pf.solvePDE(phi, [pf.transientTerm(phi, dt, al)] + spatial, externalsolver=sol)
    rows = scen.mat_rows(sol.M)
    x = sol.x
    tag = 'C12/%s/%s/impl_vs_expl/%s' % (g, 'x'.join(map(str, dims)), tset)
    dvec = [x[k] - full_old[k] for k in range(n)]
    for cc in scen.interior_cells(dims):
        r = int(G[cc])
        hyp = [scen.matvec_row(rows, r, x, ctx) == sol.RHS[r]] if ctx.sym else []
        ctx.eq('%s/%s' % (tag, '_'.join(map(str, cc))), al * (x[r] - y._value[cc]) / dt, -scen.matvec_row(rowsA, r, dvec, ctx), pre=hyp)


def closure(ctx, g, dims, tset, periodic=False, history=None):
    """implicit and explicit steps see ONE boundary closure: the field solvePDE leaves behind (interior from the solver, ghost layer
    re-imposed by apply_BCs - the closure solveExplicitPDE and the gradient/divergence chain use) satisfies the boundary rows of the
    very system the transient step assembled.  Without this the two steps differ at O(1), not O(dt^2).  Periodic axes: equal end
    cells assumed (unequal end cells are the recorded C03 finding)."""
    nd = len(dims)
    m, fs, BC = _setup(ctx, g, dims, periodic)
    per_ax = [ax for ax in range(nd) if scen.periodic_ok(g, ax)][-1] if periodic else None
    if per_ax is not None:
        ctx.assume((fs[per_ax][1] - fs[per_ax][0]) == (fs[per_ax][dims[per_ax]] - fs[per_ax][dims[per_ax] - 1]), 'equal end cells on periodic axis')
    geo = scen.Geo(ctx, g, fs)
    old = ctx.arr('o', tuple(dims))
    phi = pf.CellVariable(m, old, BC)
    D = scen.facevar(ctx, m, 'D'); u = scen.facevar(ctx, m, 'u')
    beta = scen.cellvar(ctx, m, 'be'); gam = scen.cellvar(ctx, m, 'ga')
    dt = ctx.real('dt', 'pos'); al = ctx.real('al', 'pos')
    if history == 'explicit_implicit_edit':
        # multi-step sequence: explicit start-up step, a first implicit step, THEN the boundary data change (time-dependent
        # boundary values), then the implicit step under test - which must use the CURRENT boundary conditions
        n_ = int(np.prod(scen.full_shape(dims)))
        phi = pf.solveExplicitPDE(phi, ctx.real('dt0', 'pos'), ctx.arr('R0', (n_,)))
        s0 = scen.Solver(ctx, 'w')
        pf.solvePDE(phi, [pf.transientTerm(phi, dt, al)] + _spatial(ctx, m, SETS[tset], D, u, beta, gam), externalsolver=s0)
        for ax in range(nd):
            if ax != per_ax:
                scen.set_robin(ctx, phi.BCs, scen.SIDES[2 * ax], prefix='e' + scen.SIDES[2 * ax])
                scen.set_robin(ctx, phi.BCs, scen.SIDES[2 * ax + 1], prefix='e' + scen.SIDES[2 * ax + 1])
    sol = scen.Solver(ctx)
    pf.solvePDE(phi, [pf.transientTerm(phi, dt, al)] + _spatial(ctx, m, SETS[tset], D, u, beta, gam), externalsolver=sol)
    rows = scen.mat_rows(sol.M)
    fl = scen.flat(phi._value)
    G = scen.cell_index(dims)
    tag = 'C12/%s/%s/closure/%s%s%s' % (g, 'x'.join(map(str, dims)), tset, '/periodic' if periodic else '', ('/' + history) if history else '')
    for cc in scen.all_cells(dims):
        if scen.n_out(cc, dims) != 1:
            continue
        r = int(G[cc])
        ax = [b for b, (k, n) in enumerate(zip(cc, dims)) if k == 0 or k == n + 1][0]
        nm = '_'.join(map(str, cc))
        if ax == per_ax:
            ctx.eq('%s/periodic/%s' % (tag, nm), scen.matvec_row(rows, r, fl, ctx), sol.RHS[r])
            continue
        f = getattr(phi.BCs, scen.SIDES[2 * ax + (0 if cc[ax] == 0 else 1)])
        inner = list(cc); inner[ax] = 1 if cc[ax] == 0 else dims[ax]
        idx = tuple(k - 1 for b, k in enumerate(inner) if b != ax)
        a_, b_ = np.asarray(f.a), np.asarray(f.b)
        pick = (lambda z: z.reshape(-1)[0]) if nd == 1 else ((lambda z: z.reshape(-1)[idx[0]]) if nd == 2 else (lambda z: z[idx]))
        av, bv = pick(a_), pick(b_)
        i0 = tuple(k - 1 for k in inner)
        d = geo.d(ax, i0[ax]) * geo.metric(ax, i0)
        gcoef = (-av / d + bv / 2) if cc[ax] == 0 else (av / d + bv / 2)
        ctx.eq('%s/robin/%s' % (tag, nm), scen.matvec_row(rows, r, fl, ctx), sol.RHS[r], pre=[gcoef != 0])


def scenarios(tier):
    T = []
    D = {1: [[2], [3]], 2: [[2, 2], [2, 3]], 3: [[2, 2, 2], [1, 2, 3]]}
    if tier == 'thorough':
        D = {1: [[1], [2], [3], [4]], 2: [[2, 2], [1, 2], [3, 2]], 3: [[2, 2, 2], [2, 1, 2]]}
    for g in scen.ALL:
        nd = scen.ndim(g)
        canper = any(scen.periodic_ok(g, ax) for ax in range(nd))
        for dims in D[nd]:
            ds = 'x'.join(map(str, dims))
            for ts in SETS:
                for ak in ('scalar', 'field'):
                    if tier == 'quick' and ((ak == 'field' and ts not in ('all',)) or (nd == 3 and ts not in ('all', 'diff'))):
                        continue
                    if tier == 'quick' and dims != D[nd][0] and not (ts == 'all' and ak == 'field'):
                        continue
                    for per in ((False, True) if canper and (tier == 'thorough' or ts == 'all') else (False,)):
                        T.append({'name': 'implicit/%s/%s/%s/%s%s' % (g, ds, ts, ak, '/periodic' if per else ''), 'fn': 'pv.props.c12:implicit_step',
                                  'params': {'g': g, 'dims': dims, 'tset': ts, 'alpha_kind': ak, 'periodic': per}, 'timeout': 40, 'validate': 1})
                if not (tier == 'quick' and nd == 3 and ts != 'diff'):
                    T.append({'name': 'impl_vs_expl/%s/%s/%s' % (g, ds, ts), 'fn': 'pv.props.c12:implicit_vs_explicit',
                              'params': {'g': g, 'dims': dims, 'tset': ts}, 'timeout': 40, 'validate': 1})
            for per in ((False, True) if canper else (False,)):
                for ts in (('all',) if tier == 'quick' else ('all', 'diff')):
                    T.append({'name': 'closure/%s/%s/%s%s' % (g, ds, ts, '/periodic' if per else ''), 'fn': 'pv.props.c12:closure',
                              'params': {'g': g, 'dims': dims, 'tset': ts, 'periodic': per}, 'timeout': 30, 'validate': 1})
                if tier == 'thorough' or dims == D[nd][0]:
                    T.append({'name': 'closure/%s/%s/diff%s/explicit_implicit_edit' % (g, ds, '/periodic' if per else ''), 'fn': 'pv.props.c12:closure',
                              'params': {'g': g, 'dims': dims, 'tset': 'diff', 'periodic': per, 'history': 'explicit_implicit_edit'},
                              'timeout': 30, 'validate': 1})
                T.append({'name': 'explicit/%s/%s%s' % (g, ds, '/periodic' if per else ''), 'fn': 'pv.props.c12:explicit_step',
                          'params': {'g': g, 'dims': dims, 'periodic': per}, 'timeout': 30, 'validate': 1})
    T.sort(key=lambda t: -int(np.prod(t['params']['dims'])) - (100 if 'Spherical' in t['name'] else 0))
    return T
