"""C01 Closed systems conserve the domain integral (interior face fluxes cancel)."""
import itertools
import numpy as np
import pyfvtool as pf
from .. import scen, ops
from ..ops import face_basis, divergence_basis      # noqa: F401  (scenario entry points)

META = {
    'level': 'proof',
    'functions': ['diffusion.diffusionTerm*', 'advection.convectionTerm*', 'advection.convectionUpwindTerm*',
                  'advection.convectionTvdRHS*', 'calculus.divergenceTerm*', 'mesh.*._getCellVolumes',
                  'cell.CellVariable.domainIntegral', 'pdesolver.solvePDE', 'pdesolver.solveExplicitPDE',
                  'source.transientTerm', 'boundary.boundaryConditionsTerm*', 'boundary.cellValuesWithBoundaries*'],
    'bounds': '1-D N in {1,2,3,4}; 2-D (2,3),(3,2),(1,1) quick, all of {1,2,3}^2 thorough; 3-D (3,2,2),(2,3,2),(2,2,3) quick, '
              '+(1,1,1),(3,3,3) thorough; every face in turn carries a symbolic coefficient of any sign; phi fully symbolic '
              'incl. ghosts; dt, alpha > 0 symbolic; TVD: 1-D N<=4 (thorough 5), 2-D (2,2)/(3,2), 3-D (2,2,2)',
    'outside': 'larger cell counts (builders are slice-vectorised: no new code path, but that is an argument, not a verdict); '
               'float rounding; separability of the builders per face is discharged in C17',
    'assumptions': ['cellvolume as reported by the code is the weight (the property speaks about domainIntegral())',
                    'face areas and ghost distances from the independent oracle pv/scen.py:Geo'],
    'trusted_base': ['geometric oracle pv/scen.py:Geo'],
}


def _bc_closed(ctx, phi, periodic_axes):
    g = None
    for ax in periodic_axes:
        getattr(phi.BCs, scen.SIDES[2 * ax]).periodic = True
        getattr(phi.BCs, scen.SIDES[2 * ax + 1]).periodic = True


def step(ctx, g, dims, terms, periodic=(), explicit=False, star=None):
    """one solver step from an arbitrary state conserves domainIntegral (closed system):
    no-flux walls with zero wall-normal velocity on non-periodic axes, periodic coefficient fields on
    periodic axes.  Hypothesis M x = RHS (solver stub)."""
    nd = len(dims)
    per = tuple(periodic)
    m, fs = scen.mesh(ctx, g, dims)
    # periodic axes need equal end cells for the reported ghosts to be the periodic images
    for ax in per:
        ctx.assume((fs[ax][1] - fs[ax][0]) == (fs[ax][dims[ax]] - fs[ax][dims[ax] - 1]), 'equal end cells on periodic axis')
    dt = ctx.real('dt', 'pos')
    alpha = ctx.real('al', 'pos')
    D = scen.facevar(ctx, m, 'D')
    u = scen.facevar(ctx, m, 'u')
    if star is not None:
        # 3-D: coefficient fields symbolic on the faces of one cell only, exactly 0 elsewhere (keeps the
        # end-to-end query local; the general field follows from the face basis + separability)
        star = tuple(star)
        for ax in range(nd):
            for F in (D, u):
                comp = scen.fcomp(F, ax)
                for fidx in itertools.product(*[range(k) for k in comp.shape]):
                    lo, hi = ops.adj(ax, fidx)
                    if lo != star and hi != star:
                        comp[fidx] = 0.0
    for ax in range(nd):
        for F in (D, u):
            comp = scen.fcomp(F, ax)
            sl_lo = [slice(None)] * nd; sl_lo[ax] = 0
            sl_hi = [slice(None)] * nd; sl_hi[ax] = -1
            if ax in per:
                # periodic coefficient field: value on the last face = value on the first face
                comp[tuple(sl_hi)] = comp[tuple(sl_lo)]
            elif F is u:
                comp[tuple(sl_lo)] = 0.0
                comp[tuple(sl_hi)] = 0.0
    tag = 'C01/%s/%s/step/%s/%s%s%s' % (g, 'x'.join(map(str, dims)), '+'.join(terms), 'per' + ''.join(scen.AX[a] for a in per) if per else 'closed',
                                        '/explicit' if explicit else '', ('/star' + ''.join(map(str, star))) if star is not None else '')
    if explicit:
        # linear in the old field: the real chain and the real explicit solver are run once per unit field (ghost layer imposed by
        # the real apply_BCs), which keeps every query local
        for cj in [None] + list(scen.interior_cells(dims)):
            vals = np.zeros(tuple(dims)) if not ctx.sym else np.array([ctx.const(0.0)] * int(np.prod(dims)), dtype=object).reshape(tuple(dims))
            if cj is not None:
                vals[tuple(q - 1 for q in cj)] = 1.0 if not ctx.sym else ctx.const(1.0)
            phi = pf.CellVariable(m, scen.symnp.symarray(vals) if ctx.sym else vals)
            for ax in per:
                getattr(phi.BCs, scen.SIDES[2 * ax]).periodic = True
            phi.apply_BCs()
            old_int = phi.domainIntegral()
            rhs = None
            for t in terms:
                if t == 'diffusion':
                    r = pf.divergenceTerm(D * pf.gradientTerm(phi))
                elif t == 'central':
                    r = -pf.divergenceTerm(u * pf.linearMean(phi))
                elif t == 'upwind':
                    r = -pf.divergenceTerm(u * pf.upwindMean(phi, u))
                rhs = r if rhs is None else rhs + r
            new = pf.solveExplicitPDE(phi, dt, rhs)
            ctx.eq('%s/integral/%s' % (tag, 'zero' if cj is None else 'e' + '_'.join(map(str, cj))), new.domainIntegral(), old_int)
        return
    phi = scen.cellvar(ctx, m, 'o')
    for ax in per:
        getattr(phi.BCs, scen.SIDES[2 * ax]).periodic = True
    alias = scen.ghost_alias(g, dims, per)
    sol = scen.Solver(ctx, alias=alias)
    eq = [pf.transientTerm(phi, dt, alpha)]
    for t in terms:
        if t == 'diffusion':
            eq.append(-pf.diffusionTerm(D))
        elif t == 'central':
            eq.append(pf.convectionTerm(u))
        elif t == 'upwind':
            eq.append(pf.convectionUpwindTerm(u))
    old_vals = scen.flat(np.array(phi.value))
    pf.solvePDE(phi, eq, externalsolver=sol)
    ctx.fact(tag + '/solver_called_once', sol.calls == 1)
    rows = scen.mat_rows(sol.M)
    G = scen.cell_index(dims)
    V = m.cellvolume
    x = sol.x
    n = sol.M.shape[0]
    # (a) the ghost unknowns eliminated by aliasing satisfy the boundary rows the solver was given
    for cc in scen.all_cells(dims):
        if scen.n_out(cc, dims) == 1:
            r = int(G[cc])
            ctx.eq(tag + '/ghostrow/' + '_'.join(map(str, cc)), scen.matvec_row(rows, r, x, ctx), sol.RHS[r])
    # (b) volume-weighted sum of the interior residuals = alpha/dt * (integral(x) - integral(old)): every flux term cancels.
    #     With (a) and M x = RHS this gives integral(new) = integral(old).  Both sides are affine in the independent unknowns
    #     (ghost unknowns are aliases): constant parts and the coefficient of every unknown are compared separately.
    cells = [(int(G[cc]), V[tuple(q - 1 for q in cc)]) for cc in scen.interior_cells(dims)]
    Io = ctx.const(0)
    crhs = ctx.const(0)
    for k, (r, v) in enumerate(cells):
        Io = Io + v * old_vals[k]
        crhs = crhs + v * sol.RHS[r]
    ctx.eq(tag + '/residual_sum/const', crhs, alpha / dt * Io, timeout=60)
    for k in range(n):
        if k in alias:
            continue
        e = [1.0 if (i == k or alias.get(i) == k) else 0.0 for i in range(n)]
        lhs = ctx.const(0)
        Ik = ctx.const(0)
        for r, v in cells:
            lhs = lhs + v * scen.matvec_row(rows, r, e, ctx)
            if r == k:
                Ik = Ik + v
        ctx.eq('%s/residual_sum/col%d' % (tag, k), lhs, alpha / dt * Ik, timeout=60)
    Ix = ctx.const(0)
    for r, v in cells:
        Ix = Ix + v * x[r]
    # the value reported afterwards by the real domainIntegral() is integral(x)
    ctx.eq(tag + '/reported_integral', phi.domainIntegral(), Ix)


def open_step(ctx, g, dims, terms, explicit=False, star=None, star_axes=None):
    """open boundaries: the change of domainIntegral over one step equals the net flux through the
    boundary faces.  Robin data (a, b, c symbolic) on every side, D and u fully symbolic including the
    wall faces.  Implicit: identity in the unknown vector x (ghost unknowns included), so it holds for
    whatever the linear solver returns:  sum_i V_i (M x - RHS)_i = alpha/dt (I(x) - I(old)) + sum_b F_b(x),
    F_b = outward advective - diffusive flux through boundary face b computed by the oracle."""
    nd = len(dims)
    m, fs = scen.mesh(ctx, g, dims)
    geo = scen.Geo(ctx, g, fs)
    dt = ctx.real('dt', 'pos')
    alpha = ctx.real('al', 'pos')
    D = scen.facevar(ctx, m, 'D')
    u = scen.facevar(ctx, m, 'u')
    if star is not None:
        star = tuple(star)
        for ax in range(nd):
            for F in (D, u):
                comp = scen.fcomp(F, ax)
                for fidx in itertools.product(*[range(k) for k in comp.shape]):
                    lo, hi = ops.adj(ax, fidx)
                    if (lo != star and hi != star) or (star_axes is not None and ax not in star_axes):
                        comp[fidx] = 0.0
    tag = 'C01/%s/%s/open/%s%s%s%s' % (g, 'x'.join(map(str, dims)), '+'.join(terms), '/explicit' if explicit else '',
                                       ('/star' + ''.join(map(str, star))) if star is not None else '',
                                       ('/ax' + ''.join(scen.AX[a] for a in star_axes)) if star_axes is not None else '')
    G = scen.cell_index(dims)
    V = m.cellvolume

    def boundary_flux(full):
        """net outward flux of (u phi - D grad phi) through the boundary faces for the field `full` (array incl. ghosts)"""
        tot = ctx.const(0)
        for ax, fidx in ops.faces(dims):
            if fidx[ax] not in (0, dims[ax]):
                continue
            lo, hi = ops.adj(ax, fidx)
            hi_side = fidx[ax] == dims[ax]
            cin, cg = (lo, hi) if hi_side else (hi, lo)
            pin, pg = full[cin], full[cg]
            A = geo.area(ax, fidx)
            i0 = tuple(k - 1 for k in cin)
            if scen.GRIDS[g][2] == 'sph':
                # the sums below cancel, so a relative tolerance cannot absorb the last bit of the library's literals
                # (4.0/3.0*pi in cellvolume, the double 1/3 in the terms): mirror them; the area itself is compared with
                # the exact 4 pi r^2 in the face-basis scenarios (relative 1e-12) and the volume in C10
                r1, r2 = geo.fs[0][i0[0]], geo.fs[0][i0[0] + 1]
                rf = geo.fs[0][fidx[0]]
                A = V[i0] * rf * rf / ((1 / 3) * (r2 * r2 * r2 - r1 * r1 * r1))
            dist = geo.d(ax, i0[ax]) * geo.metric(ax, i0)
            sgn = 1.0 if hi_side else -1.0
            Df = scen.fcomp(D, ax)[fidx]
            uf = scen.fcomp(u, ax)[fidx]
            if 'diffusion' in terms:
                tot = tot - A * Df * (pg - pin) / dist
            if 'central' in terms:
                tot = tot + sgn * A * uf * (pg + pin) / 2
            if 'upwind' in terms:
                avg = (pg + pin) / 2
                val = ctx.where(uf > 0, pin, avg) if hi_side else ctx.where(uf > 0, avg, pin)
                tot = tot + sgn * A * uf * val
        return tot

    if explicit:
        # both sides are linear in the old field (ghost values included, free: more general than ghosts derived from Robin data):
        # the real chain and the real explicit solver are run once per unit field e_j, which keeps every query local
        full = scen.full_shape(dims)
        for cj in [None] + [cc for cc in scen.all_cells(dims) if scen.n_out(cc, dims) <= 1]:
            vals = np.zeros(full) if not ctx.sym else np.array([ctx.const(0.0)] * int(np.prod(full)), dtype=object).reshape(full)
            if cj is not None:
                vals[cj] = 1.0 if not ctx.sym else ctx.const(1.0)
            phi = pf.CellVariable(m, scen.symnp.symarray(vals) if ctx.sym else vals)
            old_int = phi.domainIntegral()
            rhs = None
            for t in terms:
                if t == 'diffusion':
                    r = pf.divergenceTerm(D * pf.gradientTerm(phi))
                elif t == 'central':
                    r = -pf.divergenceTerm(u * pf.linearMean(phi))
                elif t == 'upwind':
                    r = -pf.divergenceTerm(u * pf.upwindMean(phi, u))
                rhs = r if rhs is None else rhs + r
            full_old = np.array(np.asarray(phi._value).view(np.ndarray))
            new = pf.solveExplicitPDE(phi, dt, rhs)
            ctx.eq('%s/integral_change/%s' % (tag, 'zero' if cj is None else 'e' + '_'.join(map(str, cj))),
                   new.domainIntegral() - old_int, -dt * boundary_flux(full_old), timeout=60)
        return
    BC = pf.BoundaryConditions(m)
    for sd in scen.sides_of(g):
        scen.set_robin(ctx, BC, sd, prefix='r' + sd)
    phi = pf.CellVariable(m, ctx.arr('o', tuple(dims)), BC)
    sol = scen.Solver(ctx)
    eq = [pf.transientTerm(phi, dt, alpha)]
    for t in terms:
        if t == 'diffusion':
            eq.append(-pf.diffusionTerm(D))
        elif t == 'central':
            eq.append(pf.convectionTerm(u))
        elif t == 'upwind':
            eq.append(pf.convectionUpwindTerm(u))
    old_vals = scen.flat(np.array(phi.value))
    pf.solvePDE(phi, eq, externalsolver=sol)
    rows = scen.mat_rows(sol.M)
    x = sol.x
    n = sol.M.shape[0]
    cells = [(int(G[cc]), V[tuple(q - 1 for q in cc)]) for cc in scen.interior_cells(dims)]
    # both sides are affine in the unknown vector: compare the constant parts and the coefficient of every unknown
    # (unit vectors), which keeps every query local to the faces around one cell
    Io = ctx.const(0)
    crhs = ctx.const(0)
    for k, (r, v) in enumerate(cells):
        Io = Io + v * old_vals[k]
        crhs = crhs + v * sol.RHS[r]
    ctx.eq(tag + '/residual_sum/const', crhs, alpha / dt * Io, timeout=60)
    for j in range(n):
        e = [0.0] * n
        e[j] = 1.0
        lhs = ctx.const(0)
        Ij = ctx.const(0)
        for r, v in cells:
            lhs = lhs + v * scen.matvec_row(rows, r, e, ctx)
            if r == j:
                Ij = Ij + v
        ef = np.array(e, dtype=object if ctx.sym else float).reshape(scen.full_shape(dims))
        ctx.eq('%s/residual_sum/col%d' % (tag, j), lhs, alpha / dt * Ij + boundary_flux(ef), timeout=60)
    Ix = ctx.const(0)
    for r, v in cells:
        Ix = Ix + v * x[r]
    ctx.eq(tag + '/reported_integral', phi.domainIntegral(), Ix)


def _limiter(ctx, limiter):
    if limiter == 'UF':
        # an uninterpreted limiter: cancellation may not depend on what FL computes
        if ctx.sym:
            from .. import symreal as sr
            FL = np.frompyfunc(lambda r: sr.Sym(sr.uf('exp', sr.lift(r))), 1, 1)
            return lambda r: FL(np.asarray(r)).view(scen.symnp.SymArray)
        return lambda r: np.exp(np.clip(r, -50, 50))
    return pf.fluxLimiter(limiter)


def tvd_sum(ctx, g, dims, limiter):
    """the limited anti-diffusive flux through an interior face leaves one cell and enters the
    neighbour: with u = c e_f (f interior, c of any sign), sum_i V_i RHS_tvd_i = 0 for every field.
    (boundary faces: psi is zeroed on the inflow side only, so closed systems need u_wall = 0,
    which is the hypothesis of the property.)"""
    m, fs = scen.mesh(ctx, g, dims)
    phi = scen.cellvar(ctx, m, 'p', full=True)
    FLf = _limiter(ctx, limiter)
    V = m.cellvolume
    G = scen.cell_index(dims)
    c = ctx.real('c')
    tag = 'C01/%s/%s/tvd/%s' % (g, 'x'.join(map(str, dims)), limiter)
    for ax, fidx in ops.faces(dims):
        if fidx[ax] == 0 or fidx[ax] == dims[ax]:
            continue
        U = scen.unit_face(ctx, m, ax, fidx, c)
        rhs = pf.convectionTVDupwindRHSTerm(U, phi, FLf)
        lo, hi = ops.adj(ax, fidx)
        s = ctx.const(0)
        stray = []
        for cc in scen.all_cells(dims):
            r = rhs[int(G[cc])]
            if ops.is_interior(cc, dims):
                if cc in (lo, hi):
                    s = s + V[tuple(k - 1 for k in cc)] * r
                elif not ctx.is_zero_term(r):
                    stray.append(cc)
            elif not ctx.is_zero_term(r):
                stray.append(cc)
        fn = ops.fname(ax, fidx)
        ctx.eq('%s/interior/%s' % (tag, fn), s, 0.0, timeout=60)
        ctx.fact('%s/nostray/%s' % (tag, fn), not stray, 'TVD contributions outside the two adjacent cells: %s' % stray[:3])


def _dims(tier):
    d1 = [[1], [2], [3], [4]]
    d2 = [[2, 3], [3, 2], [1, 1]] if tier == 'quick' else [list(d) for d in itertools.product((1, 2, 3), repeat=2)]
    d3 = [[3, 2, 2], [2, 3, 2], [2, 2, 3]] if tier == 'quick' else [[3, 2, 2], [2, 3, 2], [2, 2, 3], [1, 1, 1], [3, 3, 3]]
    return {1: d1, 2: d2, 3: d3}


def scenarios(tier):
    T = []
    D = _dims(tier)
    for g in scen.ALL:
        nd = scen.ndim(g)
        for dims in (D[nd] if g != 'SphericalGrid3D' else [[2, 2, 2]]):
            ds = 'x'.join(map(str, dims))
            for term in ops.TERMS:
                T.append({'name': 'basis/%s/%s/%s' % (g, ds, term), 'fn': 'pv.props.c01:face_basis',
                          'params': {'g': g, 'dims': dims, 'term': term, 'prop': 'C01'},
                          'timeout': 30 if g != 'SphericalGrid3D' else 8, 'validate': 1})
            T.append({'name': 'divergence/%s/%s' % (g, ds), 'fn': 'pv.props.c01:divergence_basis',
                      'params': {'g': g, 'dims': dims}, 'timeout': 30, 'validate': 1})
    # TVD anti-diffusive flux: total contribution vanishes
    tv = {1: [[2], [4]], 2: [[2, 3]], 3: [[2, 2, 2], [2, 3, 4]]} if tier == 'quick' else {1: [[1], [2], [3], [4], [5]], 2: [[2, 2], [3, 2], [2, 3]], 3: [[2, 2, 2], [3, 2, 2], [2, 3, 2], [2, 3, 4]]}
    lims = ['SUPERBEE', 'VanLeer', 'CHARM'] if tier == 'quick' else ['SUPERBEE', 'VanLeer', 'MinMod', 'CHARM', 'ospre', 'Koren', 'HCUS']
    for g in scen.ALL:
        if g == 'SphericalGrid3D':
            continue
        for dims in tv[scen.ndim(g)]:
            for lim in lims:
                T.append({'name': 'tvd/%s/%s/%s' % (g, 'x'.join(map(str, dims)), lim), 'fn': 'pv.props.c01:tvd_sum',
                          'params': {'g': g, 'dims': dims, 'limiter': lim}, 'timeout': 60, 'validate': 1})
    # solver steps from an arbitrary state
    sd = {1: [[2], [3]], 2: [[2, 2]], 3: [[2, 2, 2]]} if tier == 'quick' else {1: [[1], [2], [3], [4]], 2: [[2, 2], [2, 3], [3, 2]], 3: [[2, 2, 2], [3, 2, 2]]}
    combos = [['diffusion'], ['central'], ['upwind'], ['diffusion', 'central'], ['diffusion', 'upwind'],
              ['central', 'upwind'], ['diffusion', 'central', 'upwind']]
    if tier == 'quick':
        combos = [['diffusion'], ['central'], ['upwind'], ['diffusion', 'central', 'upwind']]
    for g in scen.ALL:
        nd = scen.ndim(g)
        if g == 'SphericalGrid3D':
            continue         # whole class is a recorded finding (see basis scenarios); no end-to-end runs
        for dims in sd[nd]:
            pers = scen.periodic_patterns(g)
            if tier == 'quick':
                pers = [p for p in pers if len(p) <= 1]
            stars = [None]
            if nd == 3:
                stars = [[1, 1, 1]] if tier == 'quick' else [[1, 1, 1], [2, 2, 2], [2, 1, 2]]
            for per in pers:
                for terms in combos:
                    for explicit in (False, True):
                        if explicit and len(terms) > 1:
                            continue        # the explicit right-hand side is summed by the harness itself
                        if nd == 3 and dims != [2, 2, 2] and len(terms) > 2:
                            continue        # three-term steps on (3,2,2): single columns undecided within 60 s
                        for star in stars:
                            T.append({'name': 'step/%s/%s/%s/%s%s%s' % (g, 'x'.join(map(str, dims)), '+'.join(terms),
                                                                         'per' + ''.join(map(str, per)) if per else 'closed',
                                                                         '/explicit' if explicit else '',
                                                                         '/star' + ''.join(map(str, star)) if star else ''),
                                      'fn': 'pv.props.c01:step',
                                      'params': {'g': g, 'dims': dims, 'terms': terms, 'periodic': list(per), 'explicit': explicit,
                                                 'star': star},
                                      'timeout': 60, 'validate': 1})
    # open boundaries: change of the integral = net boundary flux
    od = {1: [[1], [3]], 2: [[2, 3]], 3: [[2, 2, 2]]} if tier == 'quick' else {1: [[1], [2], [3], [4]], 2: [[2, 2], [2, 3], [3, 2], [1, 1]], 3: [[2, 2, 2], [1, 2, 3]]}
    for g in scen.ALL:
        nd = scen.ndim(g)
        if g == 'SphericalGrid3D':
            continue
        for dims in od[nd]:
            # explicit 3-D: coefficient fields symbolic on the faces of one corner cell at a time
            stars3 = [[1] * nd, list(dims)] if tier == 'quick' else [[1] * nd, list(dims), [1] + list(dims[1:]), list(dims[:-1]) + [1]]
            for terms in combos:
                for explicit in (False, True):
                    if explicit and len(terms) > 1:
                        continue        # the explicit right-hand side is summed by the harness itself: term combinations say nothing new
                    # 3-D explicit / multi-term steps: coefficient fields symbolic on the faces of one corner cell at a time, and when the
                    # upwind term (one case split per face) is involved, on the two faces of that cell along one axis at a time
                    sts = [(None, None)]
                    if nd == 2 and len(terms) > 1 and tier == 'thorough' and dims not in ([2, 2], [1, 1]):
                        # multi-term steps on the larger 2-D grids: corner-cell stars (full fields were undecided for single columns)
                        sts = [(st, None) for st in ([1, 1], list(dims))]
                    if nd == 3 and (explicit or len(terms) > 1):
                        sts = [(st, None) for st in stars3]
                        if 'upwind' in terms:
                            sts = [(st, [a]) for st in stars3 for a in range(3)]
                    for star, sax in sts:
                        T.append({'name': 'open/%s/%s/%s%s%s%s' % (g, 'x'.join(map(str, dims)), '+'.join(terms), '/explicit' if explicit else '',
                                                                    '/star' + ''.join(map(str, star)) if star else '',
                                                                    '/ax%d' % sax[0] if sax else ''),
                                  'fn': 'pv.props.c01:open_step',
                                  'params': {'g': g, 'dims': dims, 'terms': terms, 'explicit': explicit, 'star': star, 'star_axes': sax},
                                  'timeout': 60, 'validate': 1})
    T.sort(key=lambda t: -int(np.prod(t['params']['dims'])))
    return T
