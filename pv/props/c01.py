"""C01 Closed systems conserve the domain integral (interior face fluxes cancel)."""
import itertools
import numpy as np
import pyfvtool as pf
from .. import scen, ops
from ..ops import face_basis, divergence_basis      # noqa: F401  (scenario entry points)

META = {
    'level': 'proof',
    'functions': ['diffusion.diffusionTerm*', 'advection.convectionTerm*', 'advection.convectionUpwindTerm*',
                  'advection.convectionTvdRHS*', 'calculus.divergenceTerm*', 'mesh.*._getCellVolumes',
                  'cell.CellVariable.domainIntegral', 'pdesolver.solvePDE', 'pdesolver.solveExplicitPDE',
                  'source.transientTerm', 'boundary.boundaryConditionsTerm*', 'boundary.cellValuesWithBoundaries*'],
    'bounds': '1-D N in {1,2,3,4}; 2-D (2,3),(3,2),(1,1) quick, all of {1,2,3}^2 thorough; 3-D (3,2,2),(2,3,2),(2,2,3) quick, '
              '+(1,1,1),(3,3,3) thorough; every face in turn carries a symbolic coefficient of any sign; phi fully symbolic '
              'incl. ghosts; dt, alpha > 0 symbolic; TVD: 1-D N<=4 (thorough 5), 2-D (2,2)/(3,2), 3-D (2,2,2)',
    'outside': 'larger cell counts (builders are slice-vectorised: no new code path, but that is an argument, not a verdict); '
               'float rounding; separability of the builders per face is discharged in C17',
    'assumptions': ['cellvolume as reported by the code is the weight (the property speaks about domainIntegral())',
                    'face areas and ghost distances from the independent oracle pv/scen.py:Geo'],
    'trusted_base': ['geometric oracle pv/scen.py:Geo'],
}


def _bc_closed(ctx, phi, periodic_axes):
    g = None
    for ax in periodic_axes:
        getattr(phi.BCs, scen.SIDES[2 * ax]).periodic = True
        getattr(phi.BCs, scen.SIDES[2 * ax + 1]).periodic = True


def step(ctx, g, dims, terms, periodic=(), explicit=False, star=None):
    """one solver step from an arbitrary state conserves domainIntegral (closed system):
    no-flux walls with zero wall-normal velocity on non-periodic axes, periodic coefficient fields on
    periodic axes.  Hypothesis M x = RHS (solver stub)."""
    nd = len(dims)
    per = tuple(periodic)
    m, fs = scen.mesh(ctx, g, dims)
    # periodic axes need equal end cells for the reported ghosts to be the periodic images
    for ax in per:
        ctx.assume((fs[ax][1] - fs[ax][0]) == (fs[ax][dims[ax]] - fs[ax][dims[ax] - 1]), 'equal end cells on periodic axis')
    phi = scen.cellvar(ctx, m, 'o')
    for ax in per:
        getattr(phi.BCs, scen.SIDES[2 * ax]).periodic = True
    dt = ctx.real('dt', 'pos')
    alpha = ctx.real('al', 'pos')
    D = scen.facevar(ctx, m, 'D')
    u = scen.facevar(ctx, m, 'u')
    if star is not None:
        # 3-D: coefficient fields symbolic on the faces of one cell only, exactly 0 elsewhere (keeps the
        # end-to-end query local; the general field follows from the face basis + separability)
        star = tuple(star)
        for ax in range(nd):
            for F in (D, u):
                comp = scen.fcomp(F, ax)
                for fidx in itertools.product(*[range(k) for k in comp.shape]):
                    lo, hi = ops.adj(ax, fidx)
                    if lo != star and hi != star:
                        comp[fidx] = 0.0
    for ax in range(nd):
        for F in (D, u):
            comp = scen.fcomp(F, ax)
            sl_lo = [slice(None)] * nd; sl_lo[ax] = 0
            sl_hi = [slice(None)] * nd; sl_hi[ax] = -1
            if ax in per:
                # periodic coefficient field: value on the last face = value on the first face
                comp[tuple(sl_hi)] = comp[tuple(sl_lo)]
            elif F is u:
                comp[tuple(sl_lo)] = 0.0
                comp[tuple(sl_hi)] = 0.0
    tag = 'C01/%s/%s/step/%s/%s%s%s' % (g, 'x'.join(map(str, dims)), '+'.join(terms), 'per' + ''.join(scen.AX[a] for a in per) if per else 'closed',
                                        '/explicit' if explicit else '', ('/star' + ''.join(map(str, star))) if star is not None else '')
    old_int = phi.domainIntegral()
    if explicit:
        phi.apply_BCs()
        rhs = None
        for t in terms:
            if t == 'diffusion':
                r = pf.divergenceTerm(D * pf.gradientTerm(phi))
            elif t == 'central':
                r = -pf.divergenceTerm(u * pf.linearMean(phi))
            elif t == 'upwind':
                r = -pf.divergenceTerm(u * pf.upwindMean(phi, u))
            rhs = r if rhs is None else rhs + r
        new = pf.solveExplicitPDE(phi, dt, rhs)
        ctx.eq(tag + '/integral', new.domainIntegral(), old_int)
        return
    sol = scen.Solver(ctx, alias=scen.ghost_alias(g, dims, per))
    eq = [pf.transientTerm(phi, dt, alpha)]
    for t in terms:
        if t == 'diffusion':
            eq.append(-pf.diffusionTerm(D))
        elif t == 'central':
            eq.append(pf.convectionTerm(u))
        elif t == 'upwind':
            eq.append(pf.convectionUpwindTerm(u))
    old_vals = scen.flat(np.array(phi.value))
    pf.solvePDE(phi, eq, externalsolver=sol)
    ctx.fact(tag + '/solver_called_once', sol.calls == 1)
    rows = scen.mat_rows(sol.M)
    G = scen.cell_index(dims)
    V = m.cellvolume
    x = sol.x
    # (a) the ghost unknowns eliminated by aliasing satisfy the boundary rows the solver was given
    for cc in scen.all_cells(dims):
        if scen.n_out(cc, dims) == 1:
            r = int(G[cc])
            ctx.eq(tag + '/ghostrow/' + '_'.join(map(str, cc)), scen.matvec_row(rows, r, x, ctx), sol.RHS[r])
    # (b) volume-weighted sum of the interior residuals = alpha/dt * (integral(x) - integral(old)):
    #     every flux term cancels.  With (a) and M x = RHS this gives integral(new) = integral(old).
    S = ctx.const(0)
    Ix = ctx.const(0)
    Io = ctx.const(0)
    for k, cc in enumerate(scen.interior_cells(dims)):
        r = int(G[cc])
        v = V[tuple(q - 1 for q in cc)]
        S = S + v * (scen.matvec_row(rows, r, x, ctx) - sol.RHS[r])
        Ix = Ix + v * x[r]
        Io = Io + v * old_vals[k]
    ctx.eq(tag + '/residual_sum', S, alpha / dt * (Ix - Io), timeout=60)
    # the value reported afterwards by the real domainIntegral() is integral(x)
    ctx.eq(tag + '/reported_integral', phi.domainIntegral(), Ix)


def _limiter(ctx, limiter):
    if limiter == 'UF':
        # an uninterpreted limiter: cancellation may not depend on what FL computes
        if ctx.sym:
            from .. import symreal as sr
            FL = np.frompyfunc(lambda r: sr.Sym(sr.uf('exp', sr.lift(r))), 1, 1)
            return lambda r: FL(np.asarray(r)).view(scen.symnp.SymArray)
        return lambda r: np.exp(np.clip(r, -50, 50))
    return pf.fluxLimiter(limiter)


def tvd_sum(ctx, g, dims, limiter):
    """the limited anti-diffusive flux through an interior face leaves one cell and enters the
    neighbour: with u = c e_f (f interior, c of any sign), sum_i V_i RHS_tvd_i = 0 for every field.
    (boundary faces: psi is zeroed on the inflow side only, so closed systems need u_wall = 0,
    which is the hypothesis of the property.)"""
    m, fs = scen.mesh(ctx, g, dims)
    phi = scen.cellvar(ctx, m, 'p', full=True)
    FLf = _limiter(ctx, limiter)
    V = m.cellvolume
    G = scen.cell_index(dims)
    c = ctx.real('c')
    tag = 'C01/%s/%s/tvd/%s' % (g, 'x'.join(map(str, dims)), limiter)
    for ax, fidx in ops.faces(dims):
        if fidx[ax] == 0 or fidx[ax] == dims[ax]:
            continue
        U = scen.unit_face(ctx, m, ax, fidx, c)
        rhs = pf.convectionTVDupwindRHSTerm(U, phi, FLf)
        lo, hi = ops.adj(ax, fidx)
        s = ctx.const(0)
        stray = []
        for cc in scen.all_cells(dims):
            r = rhs[int(G[cc])]
            if ops.is_interior(cc, dims):
                if cc in (lo, hi):
                    s = s + V[tuple(k - 1 for k in cc)] * r
                elif not ctx.is_zero_term(r):
                    stray.append(cc)
            elif not ctx.is_zero_term(r):
                stray.append(cc)
        fn = ops.fname(ax, fidx)
        ctx.eq('%s/interior/%s' % (tag, fn), s, 0.0, timeout=60)
        ctx.fact('%s/nostray/%s' % (tag, fn), not stray, 'TVD contributions outside the two adjacent cells: %s' % stray[:3])


def _dims(tier):
    d1 = [[1], [2], [3], [4]]
    d2 = [[2, 3], [3, 2], [1, 1]] if tier == 'quick' else [list(d) for d in itertools.product((1, 2, 3), repeat=2)]
    d3 = [[3, 2, 2], [2, 3, 2], [2, 2, 3]] if tier == 'quick' else [[3, 2, 2], [2, 3, 2], [2, 2, 3], [1, 1, 1], [3, 3, 3]]
    return {1: d1, 2: d2, 3: d3}


def scenarios(tier):
    T = []
    D = _dims(tier)
    for g in scen.ALL:
        nd = scen.ndim(g)
        for dims in (D[nd] if g != 'SphericalGrid3D' else [[2, 2, 2]]):
            ds = 'x'.join(map(str, dims))
            for term in ops.TERMS:
                T.append({'name': 'basis/%s/%s/%s' % (g, ds, term), 'fn': 'pv.props.c01:face_basis',
                          'params': {'g': g, 'dims': dims, 'term': term, 'prop': 'C01'},
                          'timeout': 30 if g != 'SphericalGrid3D' else 8, 'validate': 1})
            T.append({'name': 'divergence/%s/%s' % (g, ds), 'fn': 'pv.props.c01:divergence_basis',
                      'params': {'g': g, 'dims': dims}, 'timeout': 30, 'validate': 1})
    # TVD anti-diffusive flux: total contribution vanishes
    tv = {1: [[2], [4]], 2: [[2, 2]], 3: [[2, 2, 2]]} if tier == 'quick' else {1: [[1], [2], [3], [4], [5]], 2: [[2, 2], [3, 2], [2, 3]], 3: [[2, 2, 2], [3, 2, 2]]}
    lims = ['SUPERBEE', 'VanLeer', 'CHARM'] if tier == 'quick' else ['SUPERBEE', 'VanLeer', 'MinMod', 'CHARM', 'ospre', 'Koren', 'HCUS']
    for g in scen.ALL:
        if g == 'SphericalGrid3D':
            continue
        for dims in tv[scen.ndim(g)]:
            for lim in lims:
                T.append({'name': 'tvd/%s/%s/%s' % (g, 'x'.join(map(str, dims)), lim), 'fn': 'pv.props.c01:tvd_sum',
                          'params': {'g': g, 'dims': dims, 'limiter': lim}, 'timeout': 60, 'validate': 1})
    # solver steps from an arbitrary state
    sd = {1: [[2], [3]], 2: [[2, 2]], 3: [[2, 2, 2]]} if tier == 'quick' else {1: [[1], [2], [3], [4]], 2: [[2, 2], [2, 3], [3, 2]], 3: [[2, 2, 2], [3, 2, 2]]}
    combos = [['diffusion'], ['central'], ['upwind'], ['diffusion', 'central'], ['diffusion', 'upwind'],
              ['central', 'upwind'], ['diffusion', 'central', 'upwind']]
    if tier == 'quick':
        combos = [['diffusion'], ['central'], ['upwind'], ['diffusion', 'central', 'upwind']]
    for g in scen.ALL:
        nd = scen.ndim(g)
        if g == 'SphericalGrid3D':
            continue         # whole class is a recorded finding (see basis scenarios); no end-to-end runs
        for dims in sd[nd]:
            pers = scen.periodic_patterns(g)
            if tier == 'quick':
                pers = [p for p in pers if len(p) <= 1]
            stars = [None]
            if nd == 3:
                stars = [[1, 1, 1]] if tier == 'quick' else [[1, 1, 1], [2, 2, 2], [2, 1, 2]]
            for per in pers:
                for terms in combos:
                    for explicit in (False, True):
                        if explicit and tier == 'quick' and len(terms) > 1:
                            continue
                        for star in stars:
                            T.append({'name': 'step/%s/%s/%s/%s%s%s' % (g, 'x'.join(map(str, dims)), '+'.join(terms),
                                                                         'per' + ''.join(map(str, per)) if per else 'closed',
                                                                         '/explicit' if explicit else '',
                                                                         '/star' + ''.join(map(str, star)) if star else ''),
                                      'fn': 'pv.props.c01:step',
                                      'params': {'g': g, 'dims': dims, 'terms': terms, 'periodic': list(per), 'explicit': explicit,
                                                 'star': star},
                                      'timeout': 60, 'validate': 1})
    T.sort(key=lambda t: -int(np.prod(t['params']['dims'])))
    return T
