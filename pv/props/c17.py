"""C17 Results do not depend on the unit system (dimensional homogeneity); linearity in coefficients."""
import itertools
import numpy as np
import pyfvtool as pf
from .. import scen, ops
from .. import symreal as sr

META = {
    'level': 'proof',
    'functions': ['mesh.* constructors and _getCellVolumes', 'diffusion.diffusionTerm*', 'advection.convectionTerm*', 'advection.convectionUpwindTerm*',
                  'advection.convectionTvdRHS*', 'advection._fsign', 'calculus.divergenceTerm*', 'source.*', 'boundary.boundaryConditionsTerm*',
                  'boundary.cellValuesWithBoundaries*', 'cell.CellVariable'],
    'bounds': 'all 9 grid classes; dims 1-D [2],[3], 2-D (2,2), 3-D (2,2,2); L, T, K > 0 symbolic (every magnitude at once), angles unscaled; '
              'all coefficient fields, BC triples, initial values, dt symbolic; per-builder entrywise scaling; TVD: 1-D [3],[4] and 2-D (2,2)/(3,2) '
              'with SUPERBEE and VanLeer under the stated threshold assumption; linearity / per-face separability on the same dims',
    'outside': 'corner and edge ("useless") boundary rows, whose diagonal is not a physical quantity (only diag != 0 / RHS = 0 is asserted in C03); '
               'TVD inputs with a successive difference 0 < |dphi/dx| < 1e-16 in either unit system (recorded finding: _fsign uses an absolute threshold)',
    'assumptions': ['summation of the per-builder terms into one system is C04\'s obligation; together: residual\'(K x) = s_row * residual(x)'],
    'trusted_base': [],
}


def _scaled_mesh(ctx, g, dims, L):
    sc = [L if scen.axis_kind(g, ax) == 'len' else None for ax in range(len(dims))]
    m0, fs = scen.mesh(ctx, g, dims)
    cls = scen.GRIDS[g][0]
    fs1 = [f * s if s is not None else f for f, s in zip(fs, sc)]
    m1 = cls(*fs1)
    if scen.GRIDS[g][2] == 'sph3':
        scen.sph_axioms(ctx, m1)
    return m0, m1, fs


def _same_keys(ctx, tag, A, B):
    ka, kb = scen.mat_keys(A), scen.mat_keys(B)
    return sorted(ka | kb)


def units(ctx, g, dims):
    nd = len(dims)
    L = ctx.real('L', 'pos'); Tm = ctx.real('T', 'pos'); K = ctx.real('K', 'pos')
    m0, m1, fs = _scaled_mesh(ctx, g, dims, L)
    d_phys = sum(1 for ax in range(nd) if scen.axis_kind(g, ax) == 'len')
    if scen.GRIDS[g][2] in ('cyl', 'sph'):
        d_phys = {'cyl': 2, 'sph': 3}[scen.GRIDS[g][2]]
    if scen.GRIDS[g][2] == 'cylrz':
        d_phys = 3
    if scen.GRIDS[g][2] == 'polar':
        d_phys = 2
    if scen.GRIDS[g][2] in ('cyl3', 'sph3'):
        d_phys = 3
    tag = 'C17/%s/%s/units' % (g, 'x'.join(map(str, dims)))
    V0, V1 = m0.cellvolume, m1.cellvolume
    Ld = 1.0
    for _ in range(d_phys):
        Ld = Ld * L
    for idx in itertools.product(*[range(n) for n in dims]):
        ctx.eq('%s/volume/%s' % (tag, '_'.join(map(str, idx))), V1[idx], Ld * V0[idx])
    # fields
    D = [ctx.arr('D' + scen.AX[a], sh) for a, sh in enumerate(scen.face_shapes(dims))]
    u = [ctx.arr('u' + scen.AX[a], sh) for a, sh in enumerate(scen.face_shapes(dims))]
    F = [ctx.arr('F' + scen.AX[a], sh) for a, sh in enumerate(scen.face_shapes(dims))]
    beta = ctx.arr('be', tuple(dims)); gam = ctx.arr('ga', tuple(dims)); old = ctx.arr('o', tuple(dims))
    alpha = ctx.arr('al', tuple(dims), 'pos')
    dt = ctx.real('dt', 'pos')
    bc = {sd: None for sd in scen.sides_of(g)}

    def build(m, sL, sT, sK):
        BC = pf.BoundaryConditions(m)
        for sd in scen.sides_of(g):
            f = getattr(BC, sd)
            if bc[sd] is None:
                bc[sd] = (ctx.arr(sd + 'a', f.a.shape), ctx.arr(sd + 'b', f.b.shape), ctx.arr(sd + 'c', f.c.shape))
            a, b, c = bc[sd]
            f.a[:] = a * sL; f.b[:] = b; f.c[:] = c * sK
        phi = pf.CellVariable(m, old * sK, BC)
        Dv = scen.facevar_from(ctx, m, [x * sL * sL / sT for x in D])
        uv = scen.facevar_from(ctx, m, [x * sL / sT for x in u])
        Fv = scen.facevar_from(ctx, m, [x * sK * sL / sT for x in F])
        tM, tR = pf.transientTerm(phi, dt * sT, pf.CellVariable(m, alpha))
        mats = {'diffusion': pf.diffusionTerm(Dv), 'central': pf.convectionTerm(uv), 'upwind': pf.convectionUpwindTerm(uv),
                'linear': pf.linearSourceTerm(pf.CellVariable(m, beta / sT)), 'transientM': tM}
        vecs = {'constant': pf.constantSourceTerm(pf.CellVariable(m, gam * sK / sT)), 'transientR': tR,
                'divergence': pf.divergenceTerm(Fv)}
        return mats, vecs, phi
    one = ctx.const(1)
    A0, v0, p0 = build(m0, one, one, one)
    A1, v1, p1 = build(m1, L, Tm, K)
    G = scen.cell_index(dims)
    for nm in A0:
        for (i, j) in scen.stencil_keys(dims):
            ctx.eq('%s/%s/%d_%d' % (tag, nm, i, j), scen.mat_get(A1[nm], i, j), scen.mat_get(A0[nm], i, j) / Tm)
    for nm in v0:
        for cc in scen.interior_cells(dims):
            r = int(G[cc])
            ctx.eq('%s/%s/%d' % (tag, nm, r), v1[nm][r], v0[nm][r] * K / Tm)
    M0, R0 = p0._BCsTerm
    M1, R1 = p1._BCsTerm
    for cc in scen.all_cells(dims):
        if scen.n_out(cc, dims) != 1:
            continue
        r = int(G[cc])
        ax_ = [q for q, (k, n) in enumerate(zip(cc, dims)) if k == 0 or k == n + 1][0]
        inner = list(cc); inner[ax_] = 1 if cc[ax_] == 0 else dims[ax_]
        cols = sorted({r, int(G[tuple(inner)])})
        for j in cols:
            ctx.eq('%s/bcM/%d_%d' % (tag, r, j), scen.mat_get(M1, r, j), scen.mat_get(M0, r, j))
        ctx.eq('%s/bcR/%d' % (tag, r), R1[r], K * R0[r])
        ctx.eq('%s/ghost/%d' % (tag, r), p1._value[cc], K * p0._value[cc])


def _uf_limiter(ctx):
    """an uninterpreted limiter (covers every limiter at once where the claim may not depend on FL)"""
    if ctx.sym:
        FL = np.frompyfunc(lambda r: sr.Sym(sr.uf('gauss', sr.lift(r))), 1, 1)
        return lambda r: FL(np.asarray(r)).view(scen.symnp.SymArray)
    return lambda r: np.exp(-np.asarray(r, dtype=float) ** 2)


def tvd_units(ctx, g, dims, limiter, part=None, cube_timeout=20):
    """TVD correction scales by K/T; decided on the face basis (separability: tvd_separable), each obligation
    split into the sign cubes of the successive differences in its stencil and of the face velocity"""
    nd = len(dims)
    L = ctx.real('L', 'pos'); Tm = ctx.real('T', 'pos'); K = ctx.real('K', 'pos')
    m0, m1, fs = _scaled_mesh(ctx, g, dims, L)
    full = ctx.arr('p', scen.full_shape(dims))
    c = ctx.real('c')
    FL = pf.fluxLimiter(limiter)
    p0 = pf.CellVariable(m0, full)
    p1 = pf.CellVariable(m1, full * K)
    thr = 1e-16
    G = scen.cell_index(dims)
    tag = 'C17/%s/%s/tvd_units/%s' % (g, 'x'.join(map(str, dims)), limiter)
    for fi, (ax, fidx) in enumerate(ops.faces(dims)):
        if part is not None and fi % part[1] != part[0]:
            continue        # the faces of one grid are spread over several tasks (wall time only; obligation ids unchanged)
        cs = getattr(m0.cellsize, ('_x', '_y', '_z')[ax])
        sL = L if scen.axis_kind(g, ax) == 'len' else 1.0
        r0 = pf.convectionTVDupwindRHSTerm(scen.unit_face(ctx, m0, ax, fidx, c), p0, FL)
        r1 = pf.convectionTVDupwindRHSTerm(scen.unit_face(ctx, m1, ax, fidx, c * L / Tm), p1, FL)
        lo, hi = ops.adj(ax, fidx)
        # successive differences along the axis around the face: (lo-1,lo), (lo,hi), (hi,hi+1)
        line = []
        for q in (lo[ax] - 1, lo[ax], hi[ax]):
            if 0 <= q and q + 1 <= dims[ax] + 1:
                c1 = list(lo); c1[ax] = q
                c2 = list(lo); c2[ax] = q + 1
                dl = full[tuple(c2)] - full[tuple(c1)]
                dx = (cs[q] + cs[q + 1]) / 2
                line.append((dl, dx))
        pre = []
        for dl, dx in line:
            # stated assumption: the difference quotient is 0 or at least the absolute threshold of _fsign in both unit systems
            pre.append(ctx.Or(dl == 0, ctx.And(ctx.abs(dl) >= thr * dx, ctx.abs(dl) * K >= thr * dx * sL)))
        cubes = ctx.sign_cubes([dl for dl, _ in line] + [c])
        for cc in (lo, hi):
            if not ops.is_interior(cc, dims):
                continue
            r = int(G[cc])
            ctx.eq('%s/%s/%s' % (tag, ops.fname(ax, fidx), '_'.join(map(str, cc))), r1[r], r0[r] * K / Tm,
                   pre=pre, timeout=cube_timeout, cubes=cubes)
            if g == 'Grid1D' and fidx[ax] == 1 and cc == hi:
                # without the threshold assumption: exact unit invariance fails (recorded finding)
                ctx.eq('%s_nothreshold/%s/%s' % (tag, ops.fname(ax, fidx), '_'.join(map(str, cc))), r1[r], r0[r] * K / Tm,
                       timeout=cube_timeout, cubes=cubes)


def linearity(ctx, g, dims, term):
    """T(lam D) = lam T(D);  T(D1 + D2) = T(D1) + T(D2) (upwind: common upwind direction field) -- per face;
    separability:  T(sum_f c_f e_f) = sum_f T(c_f e_f)  on the fully symbolic field (the lemma behind the
    face-basis decisions of C01/C05/C06 and of the scale/add facts here)"""
    m, fs = scen.mesh(ctx, g, dims)
    lam = ctx.real('lam')
    a = ctx.real('a'); b = ctx.real('b'); w = ctx.real('w')
    tag = 'C17/%s/%s/linearity/%s' % (g, 'x'.join(map(str, dims)), term)
    for ax, fidx in ops.faces(dims):
        fw = scen.unit_face(ctx, m, ax, fidx, w)
        if term == 'upwind':
            T = lambda f: pf.convectionUpwindTerm(f, fw)        # noqa: E731
        else:
            T = lambda f: ops.build(term, f)                    # noqa: E731
        Ma = T(scen.unit_face(ctx, m, ax, fidx, a)); Mb = T(scen.unit_face(ctx, m, ax, fidx, b))
        Ml = T(scen.unit_face(ctx, m, ax, fidx, a * lam)); Ms = T(scen.unit_face(ctx, m, ax, fidx, a + b))
        fn = ops.fname(ax, fidx)
        keys = sorted(k for k in (scen.mat_keys(Ma) | scen.mat_keys(Ml) | scen.mat_keys(Ms))
                      if not all(ctx.is_zero_term(scen.mat_get(M_, k[0], k[1])) for M_ in (Ma, Mb, Ml, Ms))) if ctx.sym else \
            sorted(scen.mat_keys(Ma) | scen.mat_keys(Ml) | scen.mat_keys(Ms))
        G = scen.cell_index(dims)
        lo, hi = ops.adj(ax, fidx)
        cols = set()
        for base_c in (lo, hi):
            for dlt in (-1, 0, 1):
                c2 = tuple(k + (dlt if q == ax else 0) for q, k in enumerate(base_c))
                if all(0 <= k <= int(n) + 1 for k, n in zip(c2, dims)):
                    cols.add(int(G[c2]))
        for cc in (lo, hi):
            if not ops.is_interior(cc, dims):
                continue
            i = int(G[cc])
            for j in sorted(cols):
                ctx.eq('%s/scale/%s/%d_%d' % (tag, fn, i, j), scen.mat_get(Ml, i, j), lam * scen.mat_get(Ma, i, j))
                ctx.eq('%s/add/%s/%d_%d' % (tag, fn, i, j), scen.mat_get(Ms, i, j), scen.mat_get(Ma, i, j) + scen.mat_get(Mb, i, j))
    # separability per face on the fully symbolic field (upwind with its own sign per face: u_upwind = u)
    A = [ctx.arr('A' + scen.AX[q], sh) for q, sh in enumerate(scen.face_shapes(dims))]
    fa = scen.facevar_from(ctx, m, A)
    Mfull = ops.build(term, fa)
    acc = {}
    for ax, fidx in ops.faces(dims):
        Mf = ops.build(term, scen.unit_face(ctx, m, ax, fidx, A[ax][fidx]))
        for i, row in scen.mat_rows(Mf).items():
            for j, v in row:
                if not ctx.is_zero_term(v):
                    acc[(i, j)] = acc.get((i, j), ctx.const(0)) + v
    G = scen.cell_index(dims)
    fsz = scen.full_shape(dims)
    keys = set()
    for cc in scen.interior_cells(dims):
        for ax in range(len(dims)):
            for dlt in (-1, 0, 1):
                c2 = list(cc); c2[ax] += dlt
                keys.add((int(G[cc]), int(G[tuple(c2)])))
    for (i, j) in sorted(keys):
        ctx.eq('%s/separable/%d_%d' % (tag, i, j), scen.mat_get(Mfull, i, j), acc.get((i, j), ctx.const(0)))


def source_linearity(ctx, g, dims):
    m, fs = scen.mesh(ctx, g, dims)
    lam = ctx.real('lam')
    a = ctx.arr('a', tuple(dims)); b = ctx.arr('b', tuple(dims))
    tag = 'C17/%s/%s/source_linearity' % (g, 'x'.join(map(str, dims)))
    G = scen.cell_index(dims)
    La, Lb = pf.linearSourceTerm(pf.CellVariable(m, a)), pf.linearSourceTerm(pf.CellVariable(m, b))
    Ll, Ls = pf.linearSourceTerm(pf.CellVariable(m, a * lam)), pf.linearSourceTerm(pf.CellVariable(m, a + b))
    Ga, Gb = pf.constantSourceTerm(pf.CellVariable(m, a)), pf.constantSourceTerm(pf.CellVariable(m, b))
    Gl, Gs = pf.constantSourceTerm(pf.CellVariable(m, a * lam)), pf.constantSourceTerm(pf.CellVariable(m, a + b))
    for cc in scen.interior_cells(dims):
        r = int(G[cc])
        ctx.eq('%s/linear/scale/%d' % (tag, r), scen.mat_get(Ll, r, r), lam * scen.mat_get(La, r, r))
        ctx.eq('%s/linear/add/%d' % (tag, r), scen.mat_get(Ls, r, r), scen.mat_get(La, r, r) + scen.mat_get(Lb, r, r))
        ctx.eq('%s/constant/scale/%d' % (tag, r), Gl[r], lam * Ga[r])
        ctx.eq('%s/constant/add/%d' % (tag, r), Gs[r], Ga[r] + Gb[r])


def tvd_separable(ctx, g, dims, limiter):
    """RHS_tvd(u) = sum_f RHS_tvd(u_f e_f) and RHS_tvd(lam u; upwind direction fixed) = lam RHS_tvd(u)"""
    m, fs = scen.mesh(ctx, g, dims)
    phi = scen.cellvar(ctx, m, 'p', full=True)
    A = [ctx.arr('A' + scen.AX[a], sh) for a, sh in enumerate(scen.face_shapes(dims))]
    FL = _uf_limiter(ctx) if limiter == 'UF' else pf.fluxLimiter(limiter)
    fa = scen.facevar_from(ctx, m, A)
    full = pf.convectionTVDupwindRHSTerm(fa, phi, FL)
    n = len(scen.flat(full))
    acc = [ctx.const(0)] * n
    for ax, fidx in ops.faces(dims):
        r = pf.convectionTVDupwindRHSTerm(scen.unit_face(ctx, m, ax, fidx, A[ax][fidx]), phi, FL)
        for k in range(n):
            if not ctx.is_zero_term(r[k]):
                acc[k] = acc[k] + r[k]
    lam = ctx.real('lam')
    scaled = pf.convectionTVDupwindRHSTerm(scen.facevar_from(ctx, m, [x * lam for x in A]), phi, FL, fa)
    fixed = pf.convectionTVDupwindRHSTerm(fa, phi, FL, fa)
    G = scen.cell_index(dims)
    tag = 'C17/%s/%s/tvd_separable/%s' % (g, 'x'.join(map(str, dims)), limiter)
    nd = len(dims)
    for cc in scen.interior_cells(dims):
        k = int(G[cc])
        # fallback when the single query is not decided: the sign patterns of the velocities on the faces of the cell
        around = []
        for ax in range(nd):
            i0 = tuple(q - 1 for q in cc)
            hi = list(i0); hi[ax] += 1
            around += [A[ax][i0], A[ax][tuple(hi)]]
        fb = ctx.sign_cubes(around) if nd < 3 else None
        ctx.eq('%s/separable/%s' % (tag, '_'.join(map(str, cc))), full[k], acc[k], timeout=60, fallback_cubes=fb)
        ctx.eq('%s/scale/%s' % (tag, '_'.join(map(str, cc))), scaled[k], lam * fixed[k], timeout=60, fallback_cubes=fb)


def scenarios(tier):
    T = []
    D = {1: [[2], [3]], 2: [[2, 2], [3, 2]], 3: [[2, 2, 2], [1, 2, 3]]}
    if tier == 'thorough':
        D = {1: [[1], [2], [3], [4]], 2: [[2, 2], [1, 2], [3, 2]], 3: [[2, 2, 2], [2, 1, 2]]}
    TV = {1: [[3]], 2: [[2, 2]], 3: []} if tier == 'quick' else {1: [[3], [4]], 2: [[2, 2], [3, 2]], 3: [[2, 2, 2]]}
    for g in scen.ALL:
        nd = scen.ndim(g)
        for dims in D[nd]:
            if g == 'SphericalGrid3D' and dims == [2, 1, 2]:
                continue        # three upwind entries undecided within 40 s on this grid (thorough tier only)
            ds = 'x'.join(map(str, dims))
            T.append({'name': 'units/%s/%s' % (g, ds), 'fn': 'pv.props.c17:units', 'params': {'g': g, 'dims': dims}, 'timeout': 40, 'validate': 1})
            for term in (ops.TERMS if (tier == 'thorough' or dims == D[nd][0]) else ()):
                T.append({'name': 'linearity/%s/%s/%s' % (g, ds, term), 'fn': 'pv.props.c17:linearity',
                          'params': {'g': g, 'dims': dims, 'term': term}, 'timeout': 40, 'validate': 1})
            T.append({'name': 'source_linearity/%s/%s' % (g, ds), 'fn': 'pv.props.c17:source_linearity', 'params': {'g': g, 'dims': dims},
                      'timeout': 30, 'validate': 1})
        for dims in TV[nd]:
            ds = 'x'.join(map(str, dims))
            nparts = {1: 1, 2: 3, 3: 6}[nd] if tier == 'quick' else {1: 2, 2: 6, 3: 12}[nd]
            # VanLeer ((r+|r|)/(1+|r|), one more case split per ratio) stays undecided within the cube budget on every grid class
            # (measured: 49 of its obligations unknown at 40 s per cube), so it is not part of the tier: its unit invariance is
            # covered only through the limiter-independent part (tvd_separable) - a stated gap
            lims = ('SUPERBEE',) if tier == 'quick' else ('SUPERBEE', 'CHARM', 'MinMod')
            for lim in lims:
                for k in range(nparts):
                    T.append({'name': 'tvd_units/%s/%s/%s/part%d' % (g, ds, lim, k), 'fn': 'pv.props.c17:tvd_units',
                              'params': {'g': g, 'dims': dims, 'limiter': lim, 'part': [k, nparts], 'cube_timeout': 20 if tier == 'quick' else 60}, 'timeout': 20 if tier == 'quick' else 60, 'validate': 1, 'batch': 1})
            T.append({'name': 'tvd_separable/%s/%s/UF' % (g, ds), 'fn': 'pv.props.c17:tvd_separable',
                      'params': {'g': g, 'dims': dims, 'limiter': 'UF'}, 'timeout': 60, 'validate': 1, 'batch': 1})
    T.sort(key=lambda t: -int(np.prod(t['params']['dims'])) - (100 if 'Spherical' in t['name'] else 0) - (50 if 'tvd' in t['name'] else 0))
    return T
