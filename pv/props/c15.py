"""C15 Assembly is pure and deterministic: builders never modify their inputs."""
import itertools
import numpy as np
import pyfvtool as pf
from .. import scen, ops, symnp
from .. import symreal as sr

META = {
    'level': 'proof',
    'functions': ['every public builder: diffusionTerm, convectionTerm, convectionUpwindTerm, convectionTVDupwindRHSTerm, linearSourceTerm, '
                  'constantSourceTerm, transientTerm, boundaryConditionsTerm, gradientTerm, divergenceTerm, linearMean, arithmeticMean, geometricMean, '
                  'harmonicMean, upwindMean, cellLocations, faceLocations, CellVariable.plotprofile/domainIntegral, mesh.cellvolume',
                  'pdesolver.solvePDE', 'pdesolver.solveMatrixPDE', 'pdesolver.solveExplicitPDE'],
    'bounds': 'all 9 grid classes, dims 1-D [3], 2-D (2,2), 3-D (2,2,2); all inputs symbolic (so "equal inputs give identical results" and "inputs '
              'unchanged" are decided on terms for all values at once); aliasing decided by np.shares_memory plus writing a fresh symbol into every '
              'element of every returned array and re-observing grid and inputs',
    'outside': 'bit-identity of floats under the real-number model is identity of terms (same operations in the same order); thread-level '
               'nondeterminism is not modelled (the code is sequential)',
    'assumptions': [],
    'trusted_base': [],
}


def _terms(x):
    return scen.flat(x) if isinstance(x, np.ndarray) else [x]


def _snap_arr(ctx, a):
    b = np.asarray(a)
    return (id(a), b.shape, list(b.view(np.ndarray).ravel()))


def _eq_snap(ctx, s1, s2):
    if s1[1] != s2[1]:
        return False
    for x, y in zip(s1[2], s2[2]):
        if ctx.sym:
            if isinstance(x, (sr.Sym, sr.SymB)) or isinstance(y, (sr.Sym, sr.SymB)):
                if sr.lift(x) is not sr.lift(y):
                    return False
            elif x != y:
                return False
        else:
            if not (x == y or (x != x and y != y)):
                return False
    return True


def _mesh_arrays(m):
    out = {}
    for hn in ('cellsize', 'cellcenters', 'facecenters'):
        h = getattr(m, hn)
        for c in ('_x', '_y', '_z'):
            out['%s.%s' % (hn, c)] = getattr(h, c)
    out['dims'] = m.dims; out['corners'] = m.corners; out['edges'] = m.edges
    return out


def _state(ctx, m, cells, faces):
    st = {}
    for k, a in _mesh_arrays(m).items():
        st['mesh.' + k] = _snap_arr(ctx, a)
    for nm, v in cells.items():
        st[nm + '._value'] = _snap_arr(ctx, v._value)
        for sd in scen.SIDES:
            f = getattr(v.BCs, sd)
            st['%s.%s.a' % (nm, sd)] = _snap_arr(ctx, f.a); st['%s.%s.b' % (nm, sd)] = _snap_arr(ctx, f.b)
            st['%s.%s.c' % (nm, sd)] = _snap_arr(ctx, f.c)
            st['%s.%s.flags' % (nm, sd)] = (0, (), [f.periodic, f.modified])
        st[nm + '.valuemodified'] = (0, (), [bool(v.value.modified)])
        if hasattr(v, '_BCsTerm'):
            st[nm + '._BCsTerm.id'] = (0, (), [id(v._BCsTerm[0]), id(v._BCsTerm[1])])
            st[nm + '._BCsTerm.rhs'] = _snap_arr(ctx, v._BCsTerm[1])
    for nm, F in faces.items():
        for c in ('_xvalue', '_yvalue', '_zvalue'):
            st['%s.%s' % (nm, c)] = _snap_arr(ctx, getattr(F, c))
    return st


def _diff(ctx, a, b):
    bad = []
    for k in a:
        if a[k][0] != b[k][0] and not k.endswith('flags') and not k.endswith('.id') and not k.endswith('modified'):
            bad.append(k + ':replaced')
        elif not _eq_snap(ctx, a[k], b[k]):
            bad.append(k)
    return bad


def _result_arrays(res):
    """every ndarray reachable in a builder result"""
    out = []
    if isinstance(res, (tuple, list)):
        for r in res:
            out += _result_arrays(r)
    elif isinstance(res, symnp.SymCSR):
        if res.data_ref is not None:
            out.append(res.data_ref)
    elif hasattr(res, 'indptr') and hasattr(res, 'data'):      # a real scipy sparse matrix (concrete replays): its value storage
        out.append(res.data)
    elif isinstance(res, np.ndarray):
        out.append(res)
    elif isinstance(res, pf.FaceVariable):
        out += [res._xvalue, res._yvalue, res._zvalue]
    elif isinstance(res, pf.CellVariable):
        out.append(res._value)
        for sd in scen.SIDES:
            f = getattr(res.BCs, sd)
            out += [f.a, f.b, f.c]
    return [a for a in out if isinstance(a, np.ndarray) and a.size]


def _same_result(ctx, r1, r2):
    if isinstance(r1, (tuple, list)):
        return len(r1) == len(r2) and all(_same_result(ctx, a, b) for a, b in zip(r1, r2))
    if isinstance(r1, symnp.SymCSR):
        return r1.shape == r2.shape and set(r1.d) == set(r2.d) and all(sr.lift(r1.d[k]) is sr.lift(r2.d[k]) for k in r1.d)
    if hasattr(r1, 'tocoo'):
        return (r1 != r2).nnz == 0
    if isinstance(r1, np.ndarray):
        return _eq_snap(ctx, _snap_arr(ctx, r1), _snap_arr(ctx, r2))
    if isinstance(r1, pf.FaceVariable):
        return all(_same_result(ctx, getattr(r1, c), getattr(r2, c)) for c in ('_xvalue', '_yvalue', '_zvalue'))
    if isinstance(r1, pf.CellVariable):
        return _same_result(ctx, r1._value, r2._value)
    if isinstance(r1, (sr.Sym, sr.SymB)):
        return sr.lift(r1) is sr.lift(r2)
    return r1 == r2 or (r1 != r1 and r2 != r2)


def builders(ctx, g, dims):
    nd = len(dims)
    m, fs = scen.mesh(ctx, g, dims)
    BC = pf.BoundaryConditions(m)
    for sd in scen.sides_of(g):
        scen.set_robin(ctx, BC, sd)
    phi = pf.CellVariable(m, ctx.arr('p', tuple(dims), 'pos'), BC)
    beta = scen.cellvar(ctx, m, 'be'); gam = scen.cellvar(ctx, m, 'ga'); alpha = scen.cellvar(ctx, m, 'al', 'pos')
    D = scen.facevar(ctx, m, 'D'); u = scen.facevar(ctx, m, 'u'); F = scen.facevar(ctx, m, 'F')
    dt = ctx.real('dt', 'pos')
    cells = {'phi': phi, 'beta': beta, 'gamma': gam, 'alpha': alpha}
    faces = {'D': D, 'u': u, 'F': F}
    FL = pf.fluxLimiter('SUPERBEE')
    B = {
        'diffusionTerm': lambda: pf.diffusionTerm(D), 'convectionTerm': lambda: pf.convectionTerm(u),
        'convectionUpwindTerm': lambda: pf.convectionUpwindTerm(u), 'convectionUpwindTerm2': lambda: pf.convectionUpwindTerm(u, F),
        'convectionTVDupwindRHSTerm': lambda: pf.convectionTVDupwindRHSTerm(u, phi, FL),
        'linearSourceTerm': lambda: pf.linearSourceTerm(beta), 'constantSourceTerm': lambda: pf.constantSourceTerm(gam),
        'transientTerm': lambda: pf.transientTerm(phi, dt, alpha), 'transientTerm_scalar': lambda: pf.transientTerm(phi, dt, 2.0),
        'boundaryConditionsTerm': lambda: pf.boundaryConditionsTerm(phi.BCs),
        'gradientTerm': lambda: pf.gradientTerm(phi), 'divergenceTerm': lambda: pf.divergenceTerm(F),
        'linearMean': lambda: pf.linearMean(phi), 'arithmeticMean': lambda: pf.arithmeticMean(phi),
        'geometricMean': lambda: pf.geometricMean(phi), 'harmonicMean': lambda: pf.harmonicMean(phi),
        'upwindMean': lambda: pf.upwindMean(phi, u),
        'cellLocations': lambda: pf.cellLocations(m), 'faceLocations': lambda: pf.faceLocations(m),
        'plotprofile': lambda: phi.plotprofile(), 'domainIntegral': lambda: phi.domainIntegral(), 'cellvolume': lambda: m.cellvolume,
        'copy': lambda: phi.copy(), 'gradientTermFixedBC': lambda: pf.gradientTermFixedBC(phi),
    }
    tag = 'C15/%s/%s' % (g, 'x'.join(map(str, dims)))
    for nm, f in B.items():
        before = _state(ctx, m, cells, faces)
        r1 = f()
        mid = _state(ctx, m, cells, faces)
        bad = _diff(ctx, before, mid)
        ctx.fact('%s/%s/inputs_unchanged' % (tag, nm), not bad, 'changed: %s' % bad[:4])
        r2 = f()
        ctx.fact('%s/%s/deterministic' % (tag, nm), _same_result(ctx, r1, r2))
        # aliasing: results must not share storage with the grid or the inputs
        guarded = list(_mesh_arrays(m).values()) + [v._value for v in cells.values()] + \
            [getattr(Fv, c) for Fv in faces.values() for c in ('_xvalue', '_yvalue', '_zvalue')] + \
            [getattr(getattr(phi.BCs, sd), k) for sd in scen.SIDES for k in ('a', 'b', 'c')]
        guarded = [a for a in guarded if isinstance(a, np.ndarray) and a.size]
        res_arrays = _result_arrays(r1)
        shared = [i for i, a in enumerate(res_arrays) if any(np.shares_memory(a, gq) for gq in guarded)]
        # mutation probe: overwrite every element of every returned array, re-observe
        z = ctx.real('zz')
        for a in res_arrays:
            try:
                a[...] = z
            except (ValueError, TypeError):
                pass
        after = _state(ctx, m, cells, faces)
        bad2 = _diff(ctx, mid, after)
        ctx.fact('%s/%s/no_aliasing' % (tag, nm), not shared and not bad2,
                 'result arrays %s share memory with inputs; editing the result changed %s' % (shared, bad2[:3]))
        # undo a possible corruption so that later builders see the original inputs (only needed when the fact failed)
        if bad2:
            return


def solvers(ctx, g, dims):
    nd = len(dims)
    m, fs = scen.mesh(ctx, g, dims)
    BC = pf.BoundaryConditions(m)
    for sd in scen.sides_of(g):
        scen.set_robin(ctx, BC, sd)
    phi = pf.CellVariable(m, ctx.arr('p', tuple(dims)), BC)
    beta = scen.cellvar(ctx, m, 'be'); gam = scen.cellvar(ctx, m, 'ga')
    D = scen.facevar(ctx, m, 'D'); u = scen.facevar(ctx, m, 'u')
    dt = ctx.real('dt', 'pos')
    others = {'beta': beta, 'gamma': gam}
    faces = {'D': D, 'u': u}
    tag = 'C15/%s/%s/solvers' % (g, 'x'.join(map(str, dims)))
    reuse = [-pf.diffusionTerm(D), pf.convectionUpwindTerm(u), pf.linearSourceTerm(beta), pf.constantSourceTerm(gam)]

    def snap_terms(ts):
        out = []
        for t in ts:
            if isinstance(t, symnp.SymCSR):
                out.append(('M', dict(t.d)))
            elif hasattr(t, 'tocoo'):
                out.append(('M', t.copy()))
            else:
                out.append(('v', list(scen.flat(t))))
        return out

    def same_terms(a, b):
        for (k1, x), (k2, y) in zip(a, b):
            if k1 == 'M':
                if isinstance(x, dict):
                    if set(x) != set(y) or any(sr.lift(x[k]) is not sr.lift(y[k]) for k in x):
                        return False
                elif (x != y).nnz:
                    return False
            elif not all((sr.lift(p) is sr.lift(q)) if ctx.sym else (p == q) for p, q in zip(x, y)):
                return False
        return True
    t0 = snap_terms(reuse)
    before = _state(ctx, m, others, faces)
    sol1 = scen.Solver(ctx, 'x')
    pf.solvePDE(phi, [pf.transientTerm(phi, dt, 1.0)] + reuse, externalsolver=sol1)
    ctx.fact(tag + '/solvePDE/terms_unchanged', same_terms(t0, snap_terms(reuse)))
    bad = _diff(ctx, before, _state(ctx, m, others, faces))
    ctx.fact(tag + '/solvePDE/other_inputs_unchanged', not bad, 'changed: %s' % bad[:4])
    # second step re-using the same term objects == second step with freshly built terms
    fresh = [-pf.diffusionTerm(D), pf.convectionUpwindTerm(u), pf.linearSourceTerm(beta), pf.constantSourceTerm(gam)]
    phiB = phi.copy()
    solA = scen.Solver(ctx, 'y'); solB = scen.Solver(ctx, 'y')
    pf.solvePDE(phi, [pf.transientTerm(phi, dt, 1.0)] + reuse, externalsolver=solA)
    pf.solvePDE(phiB, [pf.transientTerm(phiB, dt, 1.0)] + fresh, externalsolver=solB)
    n = solA.M.shape[0]
    for (i, j) in scen.stencil_keys(dims):
        ctx.same_term('%s/reuse/M/%d_%d' % (tag, i, j), scen.mat_get(solA.M, i, j), scen.mat_get(solB.M, i, j))
    for i in range(n):
        ctx.same_term('%s/reuse/RHS/%d' % (tag, i), solA.RHS[i], solB.RHS[i])
    # solveMatrixPDE / solveExplicitPDE modify nothing they are given
    Mh, Rh = solA.M, solA.RHS
    mk = snap_terms([Mh, Rh])
    st = _state(ctx, m, {'phi': phi}, faces)
    solC = scen.Solver(ctx, 'w')
    out = pf.solveMatrixPDE(m, Mh, Rh, externalsolver=solC)
    ctx.fact(tag + '/solveMatrixPDE/system_unchanged', same_terms(mk, snap_terms([Mh, Rh])))
    bad = _diff(ctx, st, _state(ctx, m, {'phi': phi}, faces))
    ctx.fact(tag + '/solveMatrixPDE/inputs_unchanged', not bad, 'changed: %s' % bad[:4])
    phi.apply_BCs()
    st = _state(ctx, m, {'phi': phi}, faces)
    R = ctx.arr('R', (n,))
    Rs = _snap_arr(ctx, R)
    new = pf.solveExplicitPDE(phi, dt, R)
    bad = _diff(ctx, st, _state(ctx, m, {'phi': phi}, faces))
    ctx.fact(tag + '/solveExplicitPDE/inputs_unchanged', not bad and _eq_snap(ctx, Rs, _snap_arr(ctx, R)), 'changed: %s' % bad[:4])
    z = ctx.real('zz')
    new.value = z
    bad = _diff(ctx, st, _state(ctx, m, {'phi': phi}, faces))
    ctx.fact(tag + '/solveExplicitPDE/result_independent_values', not [b for b in bad if 'phi._value' in b], 'changed: %s' % bad[:4])


def scenarios(tier):
    T = []
    D = {1: [3], 2: [2, 2], 3: [2, 2, 2]}
    for g in scen.ALL:
        dims = D[scen.ndim(g)]
        T.append({'name': 'builders/%s' % g, 'fn': 'pv.props.c15:builders', 'params': {'g': g, 'dims': dims}, 'timeout': 30, 'validate': 1})
        T.append({'name': 'solvers/%s' % g, 'fn': 'pv.props.c15:solvers', 'params': {'g': g, 'dims': dims}, 'timeout': 30, 'validate': 1})
        d3 = {1: [2], 2: [2, 3], 3: [1, 2, 3]}[scen.ndim(g)]
        T.append({'name': 'builders/%s/asym' % g, 'fn': 'pv.props.c15:builders', 'params': {'g': g, 'dims': d3}, 'timeout': 30, 'validate': 1})
        if tier == 'thorough':
            d2 = {1: [1], 2: [1, 3], 3: [2, 1, 2]}[scen.ndim(g)]
            T.append({'name': 'builders/%s/alt' % g, 'fn': 'pv.props.c15:builders', 'params': {'g': g, 'dims': d2}, 'timeout': 30, 'validate': 1})
            T.append({'name': 'solvers/%s/alt' % g, 'fn': 'pv.props.c15:solvers', 'params': {'g': g, 'dims': d2}, 'timeout': 30, 'validate': 1})
    return T
