"""C08 Redundant axes, axis relabelling, mirroring and periodic shifts change nothing."""
import itertools
import numpy as np
import pyfvtool as pf
from .. import scen, ops, symnp

META = {
    'level': 'proof',
    'functions': ['pdesolver.solvePDE', 'source.*', 'diffusion.diffusionTerm*', 'advection.convectionTerm*', 'advection.convectionUpwindTerm*',
                  'advection.convectionTvdRHS*', 'boundary.boundaryConditionsTerm*', 'boundary.cellValuesWithBoundaries*', 'mesh.*'],
    'bounds': 'residual-transfer form: with x the unknowns of the low problem, every row residual of the high system evaluated at lift(x) equals the '
              'corresponding low residual (rows the low system lacks: identically 0), so x solves low <=> lift(x) solves high. Pairs: Grid2D->Grid1D '
              '(either axis), Grid3D->Grid2D (each axis), CylindricalGrid2D->CylindricalGrid1D, PolarGrid2D->CylindricalGrid1D, CylindricalGrid3D->'
              'CylindricalGrid2D (theta) and ->PolarGrid2D (z); axis permutations of Grid2D/Grid3D; mirror of each Cartesian axis (velocity '
              'component and derivative coefficient a reversed); cyclic shift on a periodic uniform axis. low dims 1-D [2],[3], 2-D (2,2); redundant '
              'axis 1-3 cells, arbitrary spacing, no-flux or periodic; terms: transient, diffusion, central, upwind, linear and constant source, TVD',
    'outside': 'mirror symmetry of the TVD correction (needs the oddness of _fsign away from 0; not encoded); non-singularity (needed to conclude equality of the computed solutions from residual transfer) is not queried; larger cell counts; '
               'several time steps follow by induction on the one-step statement',
    'assumptions': [],
    'trusted_base': [],
}


def _arr(ctx, a):
    a = np.array(a, dtype=object)
    return symnp.symarray(a) if ctx.sym else a.astype(float)


class Prob:
    """a problem given by plain arrays (so that it can be transformed with numpy) and built through the public API"""

    def __init__(self, g, faces, old, alpha, beta, gam, D, u, bc, dt, tvd=None, upwind=True, others=True):
        self.g = g; self.faces = faces; self.old = old; self.alpha = alpha; self.beta = beta; self.gam = gam
        self.D = D; self.u = u; self.bc = bc; self.dt = dt; self.tvd = tvd; self.upwind = upwind; self.others = others
        self.dims = [len(f) - 1 for f in faces]

    def solve(self, ctx, prefix, lift=None):
        cls = scen.GRIDS[self.g][0]
        m = cls(*[_arr(ctx, f) for f in self.faces])
        if scen.GRIDS[self.g][2] == 'sph3':
            scen.sph_axioms(ctx, m)
        BC = pf.BoundaryConditions(m)
        for sd in scen.sides_of(self.g):
            spec = self.bc[sd]
            f = getattr(BC, sd)
            if spec == 'periodic':
                f.periodic = True
            elif spec is not None:
                a, b, c = spec
                f.a[:] = _arr(ctx, a); f.b[:] = _arr(ctx, b); f.c[:] = _arr(ctx, c)
        phi = pf.CellVariable(m, _arr(ctx, self.old), BC)
        Dv = scen.facevar_from(ctx, m, [_arr(ctx, x) for x in self.D])
        uv = scen.facevar_from(ctx, m, [_arr(ctx, x) for x in self.u])
        terms = [pf.transientTerm(phi, self.dt, pf.CellVariable(m, _arr(ctx, self.alpha)))]
        if self.others:
            terms += [-pf.diffusionTerm(Dv), pf.convectionTerm(uv),
                      pf.linearSourceTerm(pf.CellVariable(m, _arr(ctx, self.beta))),
                      pf.constantSourceTerm(pf.CellVariable(m, _arr(ctx, self.gam)))]
        if self.upwind:
            terms.append(pf.convectionUpwindTerm(uv))
        if self.tvd:
            terms.append(pf.convectionTVDupwindRHSTerm(uv, phi, pf.fluxLimiter(self.tvd)))
        sol = scen.Solver(ctx, prefix, lift=lift)
        pf.solvePDE(phi, terms, externalsolver=sol)
        return sol, phi


def _residuals(ctx, sol, x):
    rows = scen.mat_rows(sol.M)
    xs = scen.flat(x)
    return [scen.matvec_row(rows, i, xs, ctx) - sol.RHS[i] for i in range(sol.M.shape[0])]


def _low(ctx, g, dims, periodic_axis=None, tvd=None, uniform_axis=None):
    """fully symbolic low problem"""
    nd = len(dims)
    cls, _, cs, labels = scen.GRIDS[g]
    m, fs = scen.mesh(ctx, g, dims, uniform=(uniform_axis is not None))
    faces = [scen.flat(f) for f in fs]
    sh = tuple(dims)
    fsh = scen.face_shapes(dims)
    bc = {}
    for ax in range(nd):
        for k, sd in enumerate((scen.SIDES[2 * ax], scen.SIDES[2 * ax + 1])):
            if ax == periodic_axis:
                bc[sd] = 'periodic' if k == 0 else None
            else:
                n = int(np.prod([d for b, d in enumerate(dims) if b != ax])) if nd > 1 else 1
                shp = tuple(d for b, d in enumerate(dims) if b != ax) or (1,)
                bc[sd] = (base(ctx.arr(sd + 'a', shp)), base(ctx.arr(sd + 'b', shp)), base(ctx.arr(sd + 'c', shp)))
    return Prob(g, faces, base(ctx.arr('o', sh)), base(ctx.arr('al', sh, 'pos')), base(ctx.arr('be', sh)), base(ctx.arr('ga', sh)),
                [base(ctx.arr('D' + scen.AX[a], s)) for a, s in enumerate(fsh)], [base(ctx.arr('u' + scen.AX[a], s)) for a, s in enumerate(fsh)],
                bc, ctx.real('dt', 'pos'), tvd)


def base(a):
    return np.array(np.asarray(a).view(np.ndarray), dtype=object)


def _ins(arr, k, n):
    """repeat arr n times along a new axis inserted at position k"""
    return np.repeat(np.expand_dims(arr, k), n, axis=k)


def embed(ctx, g_hi, g_lo, axis, dims_lo, nred, red_bc, tvd=None):
    """high problem = low problem extended by a redundant axis `axis` with nred cells"""
    lo = _low(ctx, g_lo, dims_lo, tvd=tvd)
    nd_hi = len(dims_lo) + 1
    cs_hi = scen.GRIDS[g_hi]
    hi_lim = None
    lab = cs_hi[3][axis]
    lo_lim = None
    if lab == 'theta':
        hi_lim = scen.TWO_PI
    fr = scen.flat(ctx.faces('fr', nred, lo=lo_lim, hi=hi_lim))
    if red_bc == 'periodic':
        ctx.assume((fr[1] - fr[0]) == (fr[nred] - fr[nred - 1]))
    faces = list(lo.faces); faces.insert(axis, fr)
    dims_hi = [len(f) - 1 for f in faces]
    cellf = lambda a: _ins(a, axis, nred)                                  # noqa: E731
    # face fields: existing components repeated along the redundant axis; the redundant component depends on the low cell only
    D = [_ins(x, axis, nred) for x in lo.D]; u = [_ins(x, axis, nred) for x in lo.u]
    eD = base(ctx.arr('Dred', tuple(dims_lo))); eu = base(ctx.arr('ured', tuple(dims_lo)))
    D.insert(axis, _ins(eD, axis, nred + 1)); u.insert(axis, _ins(eu, axis, nred + 1))
    bc = {}
    lo_sides = scen.sides_of(g_lo)
    hi_axes = [a for a in range(nd_hi) if a != axis]
    for ax_hi in range(nd_hi):
        s0, s1 = scen.SIDES[2 * ax_hi], scen.SIDES[2 * ax_hi + 1]
        if ax_hi == axis:
            bc[s0] = 'periodic' if red_bc == 'periodic' else None
            bc[s1] = None
            continue
        ax_lo = hi_axes.index(ax_hi)
        # position of the redundant axis among the "other" axes of this side
        others_hi = [a for a in range(nd_hi) if a != ax_hi]
        pos = others_hi.index(axis)
        for sd_hi, sd_lo in ((s0, scen.SIDES[2 * ax_lo]), (s1, scen.SIDES[2 * ax_lo + 1])):
            spec = lo.bc[sd_lo]
            if spec is None or spec == 'periodic':
                bc[sd_hi] = spec
            else:
                out = []
                for arr in spec:
                    arr = np.asarray(arr, dtype=object)
                    if len(dims_lo) == 1:
                        out.append(np.repeat(arr.reshape(1), nred))
                    else:
                        out.append(_ins(arr, pos, nred))
                bc[sd_hi] = tuple(out)
    hi = Prob(g_hi, faces, cellf(lo.old), cellf(lo.alpha), cellf(lo.beta), cellf(lo.gam), D, u, bc, lo.dt, tvd)
    sol_lo, _ = lo.solve(ctx, 'x')
    full_lo = np.asarray(sol_lo.x).reshape(scen.full_shape(dims_lo))
    xl = _ins(base(full_lo) if ctx.sym else full_lo, axis, nred + 2)
    lift = (lambda n: symnp.symarray(xl.ravel())) if ctx.sym else None
    sol_hi, _ = hi.solve(ctx, 'xh', lift=lift)
    res_lo = np.array(_residuals(ctx, sol_lo, full_lo), dtype=object).reshape(scen.full_shape(dims_lo))
    res_hi = np.array(_residuals(ctx, sol_hi, xl), dtype=object).reshape(scen.full_shape(dims_hi))
    tag = 'C08/embed/%s_from_%s/ax%d/%s/n%d/%s%s' % (g_hi, g_lo, axis, 'x'.join(map(str, dims_lo)), nred, red_bc, '/tvd' if tvd else '')
    for cc in scen.all_cells(dims_hi):
        nout = scen.n_out(cc, dims_hi)
        if nout > 1:
            continue
        cl = tuple(k for b, k in enumerate(cc) if b != axis)
        nm = '_'.join(map(str, cc))
        if nout == 1 and (cc[axis] == 0 or cc[axis] == nred + 1):
            ctx.eq('%s/redundant_ghost_row/%s' % (tag, nm), res_hi[cc], 0.0)
        else:
            ctx.eq('%s/row/%s' % (tag, nm), res_hi[cc], res_lo[cl])


def _transform(ctx, lo, kind, axis=None, perm=None):
    nd = len(lo.dims)
    if kind == 'perm':
        tr = lambda a: np.transpose(a, perm)                                        # noqa: E731
        faces = [lo.faces[p] for p in perm]
        D = [tr(lo.D[p]) for p in perm]; u = [tr(lo.u[p]) for p in perm]
        bc = {}
        for new_ax, old_ax in enumerate(perm):
            others_new = [a for a in range(nd) if a != new_ax]
            others_old = [a for a in range(nd) if a != old_ax]
            for k in (0, 1):
                spec = lo.bc[scen.SIDES[2 * old_ax + k]]
                if spec is None or spec == 'periodic':
                    bc[scen.SIDES[2 * new_ax + k]] = spec
                else:
                    order = [others_old.index(perm[a]) for a in others_new]
                    bc[scen.SIDES[2 * new_ax + k]] = tuple(np.transpose(np.asarray(x, dtype=object).reshape([lo.dims[a] for a in others_old]), order)
                                                           for x in spec)
        hi = Prob(lo.g, faces, tr(lo.old), tr(lo.alpha), tr(lo.beta), tr(lo.gam), D, u, bc, lo.dt, lo.tvd, lo.upwind, lo.others)
        fmap = lambda full: np.transpose(full, perm)                                # noqa: E731
        return hi, fmap
    if kind == 'mirror':
        fl = lambda a: np.flip(a, axis)                                             # noqa: E731
        f = lo.faces[axis]
        faces = list(lo.faces); faces[axis] = [f[0] + f[-1] - x for x in reversed(f)]
        D = [fl(x) for x in lo.D]
        u = [fl(x) if a != axis else -fl(x) for a, x in enumerate(lo.u)]
        bc = {}
        for ax in range(nd):
            others = [a for a in range(nd) if a != ax]
            for k in (0, 1):
                spec = lo.bc[scen.SIDES[2 * ax + k]]
                if ax == axis:
                    tgt = scen.SIDES[2 * ax + (1 - k)]
                    if spec is None or spec == 'periodic':
                        bc[tgt] = spec
                    else:
                        a_, b_, c_ = spec
                        bc[tgt] = (-np.asarray(a_, dtype=object), b_, c_)
                else:
                    tgt = scen.SIDES[2 * ax + k]
                    if spec is None or spec == 'periodic':
                        bc[tgt] = spec
                    else:
                        pos = others.index(axis)
                        bc[tgt] = tuple(np.flip(np.asarray(x, dtype=object).reshape([lo.dims[a] for a in others]), pos) for x in spec)
        # keep "periodic" flag semantics: either side flag makes the axis periodic
        hi = Prob(lo.g, faces, fl(lo.old), fl(lo.alpha), fl(lo.beta), fl(lo.gam), D, u, bc, lo.dt, lo.tvd, lo.upwind, lo.others)
        return hi, fl
    if kind == 'shift':
        n = lo.dims[axis]
        rl = lambda a: np.roll(a, 1, axis)                                          # noqa: E731

        def rlf(a, ax):
            if ax != axis:
                return np.roll(a, 1, axis)
            # face field periodic: face n == face 0 ; roll the first n faces and re-close
            body = np.take(a, range(n), axis=axis)
            body = np.roll(body, 1, axis)
            return np.concatenate([body, np.take(body, [0], axis=axis)], axis=axis)
        D = [rlf(x, a) for a, x in enumerate(lo.D)]; u = [rlf(x, a) for a, x in enumerate(lo.u)]
        bc = {}
        for ax in range(nd):
            others = [a for a in range(nd) if a != ax]
            for k in (0, 1):
                spec = lo.bc[scen.SIDES[2 * ax + k]]
                if ax == axis or spec is None or spec == 'periodic':
                    bc[scen.SIDES[2 * ax + k]] = spec
                else:
                    pos = others.index(axis)
                    bc[scen.SIDES[2 * ax + k]] = tuple(np.roll(np.asarray(x, dtype=object).reshape([lo.dims[a] for a in others]), 1, pos) for x in spec)
        hi = Prob(lo.g, lo.faces, rl(lo.old), rl(lo.alpha), rl(lo.beta), rl(lo.gam), D, u, bc, lo.dt, lo.tvd, lo.upwind, lo.others)

        def fmap(full):
            inner = np.take(full, range(1, n + 1), axis=axis)
            inner = np.roll(inner, 1, axis)
            return np.concatenate([np.take(inner, [n - 1], axis=axis), inner, np.take(inner, [0], axis=axis)], axis=axis)
        return hi, fmap
    raise KeyError(kind)


def symmetry(ctx, g, dims, kind, axis=None, perm=None, tvd=None, periodic_axis=None, upwind=True, others=True):
    nd = len(dims)
    lo = _low(ctx, g, dims, periodic_axis=(axis if kind == 'shift' else periodic_axis), tvd=tvd, uniform_axis=(axis if kind == 'shift' else None))
    lo.upwind = upwind; lo.others = others
    if kind == 'shift':
        # periodic coefficient fields on the shifted axis
        n = dims[axis]
        for F in (lo.D, lo.u):
            comp = F[axis]
            idx_lo = [slice(None)] * nd; idx_lo[axis] = 0
            idx_hi = [slice(None)] * nd; idx_hi[axis] = n
            comp[tuple(idx_hi)] = comp[tuple(idx_lo)]
    hi, fmap = _transform(ctx, lo, kind, axis=axis, perm=perm)
    sol_lo, _ = lo.solve(ctx, 'x')
    full_lo = np.asarray(sol_lo.x).reshape(scen.full_shape(dims))
    full_lo_b = base(full_lo) if ctx.sym else full_lo
    if kind == 'shift':
        # ghosts along the shifted axis are the periodic images (checked as rows of the low system elsewhere: C03)
        n = dims[axis]
        inner = np.take(full_lo_b, range(1, n + 1), axis=axis)
        full_lo_b = np.concatenate([np.take(inner, [n - 1], axis=axis), inner, np.take(inner, [0], axis=axis)], axis=axis)
    xh = fmap(full_lo_b)
    lift = (lambda n_: symnp.symarray(np.array(xh).ravel())) if ctx.sym else None
    sol_hi, _ = hi.solve(ctx, 'xh', lift=lift)
    res_lo = np.array(_residuals(ctx, sol_lo, full_lo_b), dtype=object).reshape(scen.full_shape(dims))
    res_hi = np.array(_residuals(ctx, sol_hi, xh), dtype=object).reshape(scen.full_shape(hi.dims))
    expected = fmap(res_lo)
    tag = 'C08/%s/%s/%s/%s%s%s' % (kind, g, 'x'.join(map(str, dims)),
                                   ('ax%d' % axis) if axis is not None else 'perm' + ''.join(map(str, perm)), '/tvd' if tvd else '',
                                   ('' if (upwind and others) else ('/upwind_only' if upwind else '/no_upwind')) +
                                   ('/periodic%d' % periodic_axis if periodic_axis is not None else ''))
    for cc in scen.all_cells(hi.dims):
        nout = scen.n_out(cc, hi.dims)
        if nout > 1:
            continue
        nm = '_'.join(map(str, cc))
        sgn = 1.0
        if kind == 'mirror' and nout == 1 and (cc[axis] == 0 or cc[axis] == hi.dims[axis] + 1):
            # boundary rows of the mirrored axis: the code writes the low-side row with the opposite sign (row * -1): same solution set
            sgn = -1.0
        if kind == 'shift' and nout == 1 and (cc[axis] == 0 or cc[axis] == hi.dims[axis] + 1):
            ctx.eq('%s/periodic_row/%s' % (tag, nm), res_hi[cc], 0.0)
            continue
        ctx.eq('%s/row/%s' % (tag, nm), res_hi[cc], sgn * expected[cc])


def scenarios(tier):
    T = []
    q = tier == 'quick'
    E = [('Grid2D', 'Grid1D', 1, [3]), ('Grid2D', 'Grid1D', 0, [3]), ('CylindricalGrid2D', 'CylindricalGrid1D', 1, [3]),
         ('PolarGrid2D', 'CylindricalGrid1D', 1, [3]), ('Grid3D', 'Grid2D', 2, [2, 2]), ('Grid3D', 'Grid2D', 1, [2, 2]), ('Grid3D', 'Grid2D', 0, [2, 2]),
         ('CylindricalGrid3D', 'CylindricalGrid2D', 1, [2, 2]), ('CylindricalGrid3D', 'PolarGrid2D', 2, [2, 2])]
    for g_hi, g_lo, axis, dims_lo in E:
        if scen.radial(g_hi) and axis == 0:
            continue
        for nred in ((2,) if q else (1, 2, 3)):
            for rb in ('noflux', 'periodic'):
                for tvd in ((None,) if (q and len(dims_lo) > 1) else (None, 'SUPERBEE')):
                    T.append({'name': 'embed/%s_from_%s/ax%d/n%d/%s%s' % (g_hi, g_lo, axis, nred, rb, '/tvd' if tvd else ''),
                              'fn': 'pv.props.c08:embed',
                              'params': {'g_hi': g_hi, 'g_lo': g_lo, 'axis': axis, 'dims_lo': dims_lo, 'nred': nred, 'red_bc': rb, 'tvd': tvd},
                              'timeout': 60, 'validate': 1})
    for g, dims, perms in (('Grid2D', [2, 3], [(1, 0)]), ('Grid3D', [2, 2, 2] if q else [2, 3, 2], [(1, 0, 2), (2, 1, 0), (1, 2, 0)] if q else
                                                       [(1, 0, 2), (2, 1, 0), (0, 2, 1), (1, 2, 0), (2, 0, 1)])):
        for perm in perms:
            for tvd in ((None,) if q and g == 'Grid3D' else (None, 'SUPERBEE')):
                T.append({'name': 'perm/%s/%s%s' % (g, ''.join(map(str, perm)), '/tvd' if tvd else ''), 'fn': 'pv.props.c08:symmetry',
                          'params': {'g': g, 'dims': dims, 'kind': 'perm', 'perm': list(perm), 'tvd': tvd}, 'timeout': 60, 'validate': 1})
            # the same with one axis periodic (arbitrary, also unequal, end cells): relabelling must carry the periodic pair along
            for pax in range(len(dims)):
                if q and g == 'Grid3D' and perm != perms[-1] and pax != 2:
                    continue
                T.append({'name': 'perm/%s/%s/periodic%d' % (g, ''.join(map(str, perm)), pax), 'fn': 'pv.props.c08:symmetry',
                          'params': {'g': g, 'dims': dims, 'kind': 'perm', 'perm': list(perm), 'tvd': None, 'periodic_axis': pax},
                          'timeout': 60, 'validate': 1})
    for g, dims in (('Grid1D', [3]), ('Grid2D', [2, 3]), ('Grid3D', [2, 2, 2])):
        for axis in range(len(dims)):
            T.append({'name': 'mirror/%s/ax%d' % (g, axis), 'fn': 'pv.props.c08:symmetry',
                      'params': {'g': g, 'dims': dims, 'kind': 'mirror', 'axis': axis, 'tvd': None}, 'timeout': 60, 'validate': 1})
            T.append({'name': 'shift/%s/ax%d/no_upwind' % (g, axis), 'fn': 'pv.props.c08:symmetry',
                      'params': {'g': g, 'dims': dims, 'kind': 'shift', 'axis': axis, 'tvd': None, 'upwind': False}, 'timeout': 60, 'validate': 1})
            if g != 'Grid3D' or not q:
                T.append({'name': 'shift/%s/ax%d/upwind_only' % (g, axis), 'fn': 'pv.props.c08:symmetry',
                          'params': {'g': g, 'dims': dims, 'kind': 'shift', 'axis': axis, 'tvd': None, 'upwind': True, 'others': False},
                          'timeout': 60, 'validate': 1})
    T.sort(key=lambda t: -(100 if 'Grid3D' in t['name'] else 0) - (10 if 'tvd' in t['name'] else 0))
    return T
