"""C06 Uniform fields stay uniform: constants are diffusion-free and advect as c*div(u)."""
import itertools
import numpy as np
import pyfvtool as pf
from .. import scen, ops
from ..ops import face_basis      # noqa: F401

META = {
    'level': 'proof',
    'functions': ['diffusion.diffusionTerm*', 'advection.convectionTerm*', 'advection.convectionUpwindTerm*',
                  'advection.convectionTvdRHS*', 'calculus.divergenceTerm*', 'source.linearSourceTerm', 'source.constantSourceTerm',
                  'source.transientTerm', 'pdesolver.solvePDE', 'boundary.boundaryConditionsTerm*'],
    'bounds': '1-D N in {1,2,3,4}; 2-D (2,3),(3,2),(1,1) quick / {1,2,3}^2 thorough; 3-D (3,2,2),(2,3,2),(2,2,3); one face at a time '
              'carries a symbolic coefficient (any sign); constant k symbolic; steady-state scenario: full symbolic D>=0 and u '
              'constrained by divergenceTerm(u)=0 (1-D/2-D; 3-D on the star of one cell), dt, alpha > 0 symbolic',
    'outside': 'larger cell counts; float rounding',
    'assumptions': [],
    'trusted_base': [],
}


def tvd_const(ctx, g, dims, limiter):
    """TVD correction of a constant field is exactly zero (needs _fsign totality: 0/eps)"""
    m, fs = scen.mesh(ctx, g, dims)
    k = ctx.real('k')
    phi = pf.CellVariable(m, k)
    # constant incl. ghost cells (no-flux default BCs give ghost = inner)
    u = scen.facevar(ctx, m, 'u')
    rhs = pf.convectionTVDupwindRHSTerm(u, phi, pf.fluxLimiter(limiter))
    G = scen.cell_index(dims)
    tag = 'C06/%s/%s/tvd_const/%s' % (g, 'x'.join(map(str, dims)), limiter)
    for cc in scen.interior_cells(dims):
        ctx.eq('%s/%s' % (tag, '_'.join(map(str, cc))), rhs[int(G[cc])], 0.0)
    ctx.finite_all(tag + '/finite', scen.flat(rhs))


def sources(ctx, g, dims):
    """linearSourceTerm(beta), constantSourceTerm(gamma) alone: diagonal system, phi_i = gamma_i / beta_i"""
    m, fs = scen.mesh(ctx, g, dims)
    beta = scen.cellvar(ctx, m, 'b', 'nz')
    gam = scen.cellvar(ctx, m, 'g')
    phi = pf.CellVariable(m, 0.0)
    sol = scen.Solver(ctx)
    pf.solvePDE(phi, [pf.linearSourceTerm(beta), pf.constantSourceTerm(gam)], externalsolver=sol)
    G = scen.cell_index(dims)
    rows = scen.mat_rows(sol.M)
    tag = 'C06/%s/%s/sources' % (g, 'x'.join(map(str, dims)))
    bv = np.asarray(beta.value)
    gv = np.asarray(gam.value)
    for cc in scen.interior_cells(dims):
        r = int(G[cc])
        i0 = tuple(q - 1 for q in cc)
        # the row is exactly beta_i * x_i = gamma_i: no coupling to any other unknown
        others = [(j, v) for j, v in rows.get(r, []) if j != r and not ctx.is_zero_term(v)]
        ctx.fact('%s/local/%s' % (tag, '_'.join(map(str, cc))), not others, 'off-diagonal entries %s' % others[:2])
        ctx.eq('%s/diag/%s' % (tag, '_'.join(map(str, cc))), scen.mat_get(sol.M, r, r), bv[i0])
        ctx.eq('%s/rhs/%s' % (tag, '_'.join(map(str, cc))), sol.RHS[r], gv[i0])
        ctx.eq('%s/solution/%s' % (tag, '_'.join(map(str, cc))), np.asarray(phi.value)[i0], gv[i0] / bv[i0], pre=sol.hyps([r]))


def steady(ctx, g, dims, bc, star=None):
    """uniform state k with matching boundary values in a discretely divergence-free flow has zero
    residual in the system solvePDE assembles for transient + diffusion + upwind, any dt, alpha"""
    nd = len(dims)
    m, fs = scen.mesh(ctx, g, dims)
    k = ctx.real('k')
    phi = pf.CellVariable(m, k)
    per = []
    if bc == 'dirichlet':
        for sd in scen.sides_of(g):
            getattr(phi.BCs, sd).fixedValue(k)
    elif bc == 'periodic':
        per = [ax for ax in range(nd) if scen.periodic_ok(g, ax)]
        for ax in per:
            getattr(phi.BCs, scen.SIDES[2 * ax]).periodic = True
            ctx.assume((fs[ax][1] - fs[ax][0]) == (fs[ax][dims[ax]] - fs[ax][dims[ax] - 1]))
    dt = ctx.real('dt', 'pos')
    al = ctx.real('al', 'pos')
    D = scen.facevar(ctx, m, 'D', 'nonneg')
    u = scen.facevar(ctx, m, 'u')
    if star is not None:
        star = tuple(star)
        for ax in range(nd):
            for F in (D, u):
                comp = scen.fcomp(F, ax)
                for fidx in itertools.product(*[range(q) for q in comp.shape]):
                    lo, hi = ops.adj(ax, fidx)
                    if lo != star and hi != star:
                        comp[fidx] = 0.0
    for ax in range(nd):
        comp = scen.fcomp(u, ax)
        lo = [slice(None)] * nd; lo[ax] = 0
        hi = [slice(None)] * nd; hi[ax] = -1
        if ax in per:
            comp[tuple(hi)] = comp[tuple(lo)]
            cd = scen.fcomp(D, ax)
            cd[tuple(hi)] = cd[tuple(lo)]
        elif bc != 'dirichlet':
            comp[tuple(lo)] = 0.0
            comp[tuple(hi)] = 0.0
    div = pf.divergenceTerm(u)
    G = scen.cell_index(dims)
    for cc in scen.interior_cells(dims):
        d = div[int(G[cc])]
        if not ctx.is_zero_term(d):
            ctx.assume(d == 0, 'discretely divergence-free')
    sol = scen.Solver(ctx, lift=lambda n: scen.symnp.symarray(np.array([k] * n, dtype=object)))
    pf.solvePDE(phi, [pf.transientTerm(phi, dt, al), -pf.diffusionTerm(D), pf.convectionUpwindTerm(u)], externalsolver=sol)
    rows = scen.mat_rows(sol.M)
    tag = 'C06/%s/%s/steady/%s%s' % (g, 'x'.join(map(str, dims)), bc, ('/star' + ''.join(map(str, star))) if star else '')
    n = sol.M.shape[0]
    xk = [k] * n
    for cc in scen.all_cells(dims):
        if scen.n_out(cc, dims) > 1:
            continue
        r = int(G[cc])
        ctx.eq('%s/residual/%s' % (tag, '_'.join(map(str, cc))), scen.matvec_row(rows, r, xk, ctx), sol.RHS[r])


def _dims(tier):
    d1 = [[1], [2], [3], [4]]
    d2 = [[2, 3], [3, 2], [1, 1]] if tier == 'quick' else [list(d) for d in itertools.product((1, 2, 3), repeat=2)]
    d3 = [[3, 2, 2], [2, 3, 2], [2, 2, 3]] if tier == 'quick' else [[3, 2, 2], [2, 3, 2], [2, 2, 3], [1, 1, 1], [3, 3, 3]]
    return {1: d1, 2: d2, 3: d3}


def scenarios(tier):
    T = []
    D = _dims(tier)
    small = {1: [[2], [3]], 2: [[2, 2]], 3: [[2, 2, 2]]}
    for g in scen.ALL:
        nd = scen.ndim(g)
        for dims in D[nd]:
            ds = 'x'.join(map(str, dims))
            for term in ops.TERMS:
                T.append({'name': 'basis/%s/%s/%s' % (g, ds, term), 'fn': 'pv.props.c06:face_basis',
                          'params': {'g': g, 'dims': dims, 'term': term, 'prop': 'C06'}, 'timeout': 30, 'validate': 1})
        for dims in small[nd] if tier == 'quick' else D[nd]:
            ds = 'x'.join(map(str, dims))
            for lim in (['SUPERBEE', 'VanAlbada1'] if tier == 'quick' else ['SUPERBEE', 'VanAlbada1', 'CHARM', 'HCUS', 'ospre', 'MinMod']):
                T.append({'name': 'tvd_const/%s/%s/%s' % (g, ds, lim), 'fn': 'pv.props.c06:tvd_const',
                          'params': {'g': g, 'dims': dims, 'limiter': lim}, 'timeout': 30, 'validate': 1})
            T.append({'name': 'sources/%s/%s' % (g, ds), 'fn': 'pv.props.c06:sources', 'params': {'g': g, 'dims': dims},
                      'timeout': 30, 'validate': 1})
            for bc in ('dirichlet', 'noflux', 'periodic'):
                if bc == 'periodic' and not any(scen.periodic_ok(g, ax) for ax in range(nd)):
                    continue
                stars = [None] if nd < 3 else ([[1, 1, 1]] if tier == 'quick' else [[1, 1, 1], [2, 2, 2]])
                for st in stars:
                    T.append({'name': 'steady/%s/%s/%s%s' % (g, ds, bc, '/star' if st else ''), 'fn': 'pv.props.c06:steady',
                              'params': {'g': g, 'dims': dims, 'bc': bc, 'star': st}, 'timeout': 40 if tier == 'quick' else 150, 'validate': 1})
    T.sort(key=lambda t: -int(np.prod(t['params']['dims'])) - (100 if 'Spherical' in t['name'] else 0))
    return T
