"""C11 Cell-to-face means are true means of the two adjacent cells in any dimension."""
import itertools
import numpy as np
import pyfvtool as pf
from .. import scen, ops
from .. import symreal as sr
from ..symreal import Sym

META = {
    'level': 'proof',
    'functions': ['averaging.linearMean', 'averaging.arithmeticMean', 'averaging.geometricMean', 'averaging.harmonicMean',
                  'averaging.upwindMean', 'averaging.cell_size_array'],
    'bounds': 'all 9 grid classes (the functions dispatch on dimension only); dims 1-D [1],[2],[3], 2-D (2,2),(1,2), 3-D (2,2,2); cell field fully '
              'symbolic incl. ghost values (positive for bounds/ordering, non-negative incl. exact zeros for totality, arbitrary for linear/upwind); '
              'spacing symbolic; 1-D loop variants explored path by path (zero patterns) with the path executor',
    'outside': 'larger cell counts; exp/log are uninterpreted: the axiom instances used (exp(log a)=a for a>0, monotonicity, functional consistency, '
               'convexity (Jensen) instances, exp(x)exp(-x)=1) are listed in the evidence; float rounding',
    'assumptions': [],
    'trusted_base': ['true facts about exp/log instantiated on the occurring terms (listed as axiom_instances)'],
}

MEANS = {'linear': pf.linearMean, 'arithmetic': pf.arithmeticMean, 'geometric': pf.geometricMean, 'harmonic': pf.harmonicMean}


def _face_pairs(dims):
    """(ax, fidx, lo cell, hi cell) for every face, full-array cell indices"""
    return [(ax, fidx) + ops.adj(ax, fidx) for ax, fidx in ops.faces(dims)]


def _sizes(m, ax):
    return getattr(m.cellsize, ('_x', '_y', '_z')[ax])


def _exp(x):
    return Sym(sr._ufc('exp', sr.lift(x)))


def _geo_axioms(ctx, F, pl, pr, dl, dr):
    """true facts about exp/log on the terms of one geometric-mean face value F = exp(A)"""
    if not ctx.sym or not (isinstance(F, Sym) and F.n.op == 'uf' and F.n.args[0] == 'exp'):
        return
    A = Sym(F.n.args[1])
    Lg = Sym(sr._ufc('log', sr.lift(pl))); Rg = Sym(sr._ufc('log', sr.lift(pr)))
    t = dl / (dl + dr)
    A2 = t * Lg + (1 - t) * Rg
    e = {'A': F, 'A2': _exp(A2), 'L': _exp(Lg), 'R': _exp(Rg), 'mA2': _exp(-A2), 'mL': _exp(-Lg), 'mR': _exp(-Rg)}
    arg = {'A': A, 'A2': A2, 'L': Lg, 'R': Rg, 'mA2': -A2, 'mL': -Lg, 'mR': -Rg}
    ctx.axiom(ctx.Implies(pl > 0, e['L'] == pl), 'exp(log a) = a for a > 0')
    ctx.axiom(ctx.Implies(pr > 0, e['R'] == pr), 'exp(log a) = a for a > 0')
    for k in ('A2', 'L', 'R'):
        ctx.axiom(e[k] * e['m' + k] == 1, 'exp(x) * exp(-x) = 1')
    names = list(e)
    for a_, b_ in itertools.combinations(names, 2):
        ctx.axiom(ctx.Implies(arg[a_] <= arg[b_], e[a_] <= e[b_]), 'exp is monotone (x <= y => exp x <= exp y), incl. functional consistency')
        ctx.axiom(ctx.Implies(arg[b_] <= arg[a_], e[b_] <= e[a_]), 'exp is monotone (x <= y => exp x <= exp y), incl. functional consistency')
    ctx.axiom(ctx.Implies(ctx.And(t >= 0, t <= 1), e['A2'] <= t * e['L'] + (1 - t) * e['R']),
              'exp is convex: exp(t x + (1-t) y) <= t exp x + (1-t) exp y, 0 <= t <= 1 (Jensen instance)')
    ctx.axiom(ctx.Implies(ctx.And(t >= 0, t <= 1), e['mA2'] <= t * e['mL'] + (1 - t) * e['mR']),
              'exp is convex: exp(t x + (1-t) y) <= t exp x + (1-t) exp y, 0 <= t <= 1 (Jensen instance)')


def means(ctx, g, dims, which):
    m, fs = scen.mesh(ctx, g, dims)
    phi = scen.cellvar(ctx, m, 'p', 'pos', full=True)
    full = phi._value
    k = ctx.real('k', 'pos')
    kvar = pf.CellVariable(m, np.full(scen.full_shape(dims), k, dtype=object if ctx.sym else float) if False else
                           (scen.symnp.symarray(np.full(scen.full_shape(dims), k, dtype=object)) if ctx.sym else np.full(scen.full_shape(dims), k)))
    f = MEANS[which]
    F = f(phi)
    Fk = f(kvar)
    tag = 'C11/%s/%s/%s' % (g, 'x'.join(map(str, dims)), which)
    A = pf.arithmeticMean(phi); Gm = pf.geometricMean(phi); H = pf.harmonicMean(phi)
    for ax, fidx, lo, hi in _face_pairs(dims):
        v = scen.fcomp(F, ax)[fidx]
        pl, pr = full[lo], full[hi]
        cs = _sizes(m, ax)
        dl, dr = cs[lo[ax]], cs[hi[ax]]
        fn = ops.fname(ax, fidx)
        ax_ = []
        if which == 'geometric':
            _geo_axioms(ctx, v, pl, pr, dl, dr)
            _geo_axioms(ctx, scen.fcomp(Fk, ax)[fidx], k, k, dl, dr)
        ctx.holds('%s/between/%s' % (tag, fn), ctx.And(v >= ctx.min(pl, pr), v <= ctx.max(pl, pr)))
        ctx.eq('%s/constant/%s' % (tag, fn), scen.fcomp(Fk, ax)[fidx], k)
        ctx.finite('%s/finite/%s' % (tag, fn), v)
        if which == 'geometric':
            ctx.holds('%s/ordering/%s' % (tag, fn), ctx.And(scen.fcomp(H, ax)[fidx] <= v, v <= scen.fcomp(A, ax)[fidx]))
        if which == 'arithmetic':
            ctx.eq('%s/weights/%s' % (tag, fn), v, (dl * pl + dr * pr) / (dl + dr))
        if which == 'harmonic':
            ctx.eq('%s/weights/%s' % (tag, fn), v, (dl + dr) / (dl / pl + dr / pr))
            ctx.holds('%s/ordering/%s' % (tag, fn), v <= scen.fcomp(A, ax)[fidx])
        if ctx.sym:
            # dependence: only the two adjacent cells and this axis' face positions
            allowed = set(sr.free_vars([sr.lift(pl), sr.lift(pr)])) | {'f%s_%d' % (scen.AX[ax], i) for i in range(dims[ax] + 1)}
            extra = sorted(sr.free_vars([sr.lift(v)]) - allowed)
            ctx.fact('%s/depends_only_on_adjacent/%s' % (tag, fn), not extra, 'also mentions %s' % extra[:4])
        else:
            ctx.fact('%s/depends_only_on_adjacent/%s' % (tag, fn), True)


def linear_exact(ctx, g, dims):
    """linearMean reproduces phi = sum_ax alpha_ax * x_ax + beta exactly at the face positions (non-uniform spacing)"""
    nd = len(dims)
    m, fs = scen.mesh(ctx, g, dims)
    al = [ctx.real('al%d' % ax) for ax in range(nd)]
    be = ctx.real('be')
    cent = []
    for ax in range(nd):
        f = scen.flat(fs[ax])
        c = [(f[i] + f[i + 1]) / 2 for i in range(dims[ax])]
        c = [f[0] - (f[1] - f[0]) / 2] + c + [f[-1] + (f[-1] - f[-2]) / 2]      # ghost centres (ghost size = end cell size)
        cent.append(c)
    full = np.empty(scen.full_shape(dims), dtype=object)
    for cc in scen.all_cells(dims):
        v = be
        for ax in range(nd):
            v = v + al[ax] * cent[ax][cc[ax]]
        full[cc] = v
    full = scen.symnp.symarray(full) if ctx.sym else full.astype(float)
    phi = pf.CellVariable(m, full)
    F = pf.linearMean(phi)
    tag = 'C11/%s/%s/linear_exact' % (g, 'x'.join(map(str, dims)))
    for ax, fidx, lo, hi in _face_pairs(dims):
        v = be
        for b in range(nd):
            v = v + al[b] * (scen.flat(fs[ax])[fidx[ax]] if b == ax else cent[b][lo[b]])
        ctx.eq('%s/%s' % (tag, ops.fname(ax, fidx)), scen.fcomp(F, ax)[fidx], v)


def upwind(ctx, g, dims):
    m, fs = scen.mesh(ctx, g, dims)
    phi = scen.cellvar(ctx, m, 'p', full=True)
    full = phi._value
    u = scen.facevar(ctx, m, 'u')
    F = pf.upwindMean(phi, u)
    tag = 'C11/%s/%s/upwind' % (g, 'x'.join(map(str, dims)))
    for ax, fidx, lo, hi in _face_pairs(dims):
        v = scen.fcomp(F, ax)[fidx]
        uu = scen.fcomp(u, ax)[fidx]
        pl, pr = full[lo], full[hi]
        avg = (pl + pr) / 2
        lo_val = avg if fidx[ax] == 0 else pl           # inflow through the low boundary face: boundary (face) value
        hi_val = avg if fidx[ax] == dims[ax] else pr
        fn = ops.fname(ax, fidx)
        ctx.eq('%s/positive/%s' % (tag, fn), v, lo_val, pre=[uu > 0])
        ctx.eq('%s/negative/%s' % (tag, fn), v, hi_val, pre=[uu < 0])
        ctx.eq('%s/zero/%s' % (tag, fn), v, avg, pre=[uu == 0])
        if ctx.sym:
            allowed = set(sr.free_vars([sr.lift(pl), sr.lift(pr), sr.lift(uu)]))
            extra = sorted(sr.free_vars([sr.lift(v)]) - allowed)
            ctx.fact('%s/depends_only_on_adjacent/%s' % (tag, fn), not extra, 'also mentions %s' % extra[:4])
        else:
            ctx.fact('%s/depends_only_on_adjacent/%s' % (tag, fn), True)


def zeros(ctx, g, dims, which):
    """data containing exact zeros (non-negative field): every face value is finite and is 0 when an adjacent cell is 0
    (geometric, harmonic), identically in 1-D (loop variant, explored path by path) and 2-D/3-D"""
    m, fs = scen.mesh(ctx, g, dims)
    phi = scen.cellvar(ctx, m, 'p', 'nonneg', full=True)
    full = phi._value
    F = MEANS[which](phi)
    tag = 'C11/%s/%s/zeros/%s' % (g, 'x'.join(map(str, dims)), which)
    for ax, fidx, lo, hi in _face_pairs(dims):
        v = scen.fcomp(F, ax)[fidx]
        pl, pr = full[lo], full[hi]
        fn = ops.fname(ax, fidx)
        if which == 'harmonic':
            ctx.finite('%s/finite/%s' % (tag, fn), v)
            ctx.eq('%s/zero_if_adjacent_zero/%s' % (tag, fn), v, 0.0, pre=[ctx.Or(pl == 0, pr == 0)])
        elif which == 'geometric':
            # log(0) = -inf in floats gives exp(-inf) = 0: outside the real-number model; the 1-D variant has an explicit branch
            if len(dims) == 1:
                ctx.eq('%s/zero_if_adjacent_zero/%s' % (tag, fn), v, 0.0, pre=[ctx.Or(pl == 0, pr == 0)])
            else:
                ctx.fact('%s/zero_if_adjacent_zero/%s' % (tag, fn), True, 'float semantics of log(0): checked concretely only')
        else:
            ctx.finite('%s/finite/%s' % (tag, fn), v)


def embed(ctx, g2, dims2, which):
    """x-face values of a 2-D/3-D computation equal the 1-D computation on each grid line (same function, same data)"""
    m2, fs = scen.mesh(ctx, g2, dims2)
    kind = 'pos' if which in ('geometric', 'harmonic') else 'any'
    phi2 = scen.cellvar(ctx, m2, 'p', kind, full=True)
    g1 = {'Grid2D': 'Grid1D', 'Grid3D': 'Grid1D', 'CylindricalGrid2D': 'CylindricalGrid1D', 'PolarGrid2D': 'CylindricalGrid1D',
          'CylindricalGrid3D': 'CylindricalGrid1D', 'SphericalGrid3D': 'SphericalGrid1D'}[g2]
    m1 = scen.GRIDS[g1][0](fs[0])
    f = MEANS[which] if which != 'upwind' else None
    tag = 'C11/%s/%s/embed/%s' % (g2, 'x'.join(map(str, dims2)), which)
    if which == 'upwind':
        u2 = scen.facevar(ctx, m2, 'u')
        F2 = pf.upwindMean(phi2, u2)
    else:
        F2 = f(phi2)
    rest_shapes = [range(1, d + 1) for d in dims2[1:]]
    for rest in itertools.product(*rest_shapes):
        line = phi2._value[(slice(None),) + tuple(rest)]
        wrap = (lambda a: scen.symnp.symarray(np.array(a))) if ctx.sym else (lambda a: np.array(a, dtype=float))
        p1 = pf.CellVariable(m1, wrap(line))
        if which == 'upwind':
            u1 = scen.facevar_from(ctx, m1, [wrap(u2._xvalue[(slice(None),) + tuple(r - 1 for r in rest)])])
            F1 = pf.upwindMean(p1, u1)
        else:
            F1 = f(p1)
        for i in range(dims2[0] + 1):
            v2 = F2._xvalue[(i,) + tuple(r - 1 for r in rest)]
            if which == 'geometric':
                _geo_axioms(ctx, v2, line[i], line[i + 1], _sizes(m2, 0)[i], _sizes(m2, 0)[i + 1])
                _geo_axioms(ctx, F1._xvalue[i], line[i], line[i + 1], _sizes(m1, 0)[i], _sizes(m1, 0)[i + 1])
            ctx.same_term('%s/%s/%d' % (tag, '_'.join(map(str, rest)), i), v2, F1._xvalue[i])


def scenarios(tier):
    T = []
    D = {1: [[1], [2], [3]], 2: [[2, 2], [1, 2]], 3: [[2, 2, 2], [1, 2, 3]]}
    if tier == 'thorough':
        D = {1: [[1], [2], [3], [4]], 2: [[2, 2], [1, 2], [3, 2], [2, 3]], 3: [[2, 2, 2], [1, 2, 2], [2, 2, 3]]}
    grids = scen.ALL if tier == 'thorough' else ['Grid1D', 'CylindricalGrid1D', 'Grid2D', 'PolarGrid2D', 'Grid3D', 'SphericalGrid3D']
    for g in grids:
        nd = scen.ndim(g)
        for dims in D[nd]:
            ds = 'x'.join(map(str, dims))
            for w in MEANS:
                T.append({'name': 'means/%s/%s/%s' % (g, ds, w), 'fn': 'pv.props.c11:means', 'params': {'g': g, 'dims': dims, 'which': w},
                          'timeout': 30, 'validate': 1, 'batch': 6 if w == 'geometric' else 10})
                if w in ('geometric', 'harmonic'):
                    T.append({'name': 'zeros/%s/%s/%s' % (g, ds, w), 'fn': 'pv.props.c11:zeros', 'params': {'g': g, 'dims': dims, 'which': w},
                              'timeout': 30, 'validate': 1, 'max_paths': 300})
            T.append({'name': 'linear_exact/%s/%s' % (g, ds), 'fn': 'pv.props.c11:linear_exact', 'params': {'g': g, 'dims': dims},
                      'timeout': 30, 'validate': 1})
            T.append({'name': 'upwind/%s/%s' % (g, ds), 'fn': 'pv.props.c11:upwind', 'params': {'g': g, 'dims': dims}, 'timeout': 30, 'validate': 1})
        if nd > 1:
            for w in ('linear', 'arithmetic', 'harmonic', 'geometric', 'upwind'):
                T.append({'name': 'embed/%s/%s' % (g, w), 'fn': 'pv.props.c11:embed', 'params': {'g2': g, 'dims2': D[nd][0], 'which': w},
                          'timeout': 30, 'validate': 1, 'max_paths': 300})
    T.sort(key=lambda t: -int(np.prod(t['params'].get('dims', t['params'].get('dims2')))) - (100 if 'Spherical' in t['name'] else 0))
    return T
