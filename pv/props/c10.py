"""C10 Grid geometry is exact: faces, centres, sizes and true cell volumes."""
import itertools
import numpy as np
import pyfvtool as pf
from .. import scen
from ..scen import GRIDS, AX

META = {
    'level': 'proof',
    'functions': ['mesh.Grid1D/2D/3D._mesh_*_param', 'mesh.*._getCellVolumes', 'mesh.MeshStructure._facelocation_to_cellsize',
                  'mesh.CellProp label properties', 'cell.CellVariable.domainIntegral'],
    'bounds': 'cells per axis: 1-D N in {1..4}; 2-D dims in {1,2,3}^2 (quick: 5 of 9); 3-D (1,1,1),(2,2,2),(3,2,2),(2,3,2),(2,2,3) '
              '(thorough adds (3,3,3)); face positions arbitrary strictly increasing reals (r0 >= 0 incl. r0 = 0; '
              '0<=theta<=pi on spherical, upper angular limits 2*pi); (N, L) form with L symbolic positive',
    'outside': 'larger N; float rounding (volumes compared to 1e-12 relative because of float literals such as 4.0/3.0*pi)',
    'assumptions': ['cos/sin uninterpreted with true axiom instances; sat answers are replayed with the real cos'],
    'trusted_base': ['geometric oracle pv/scen.py:Geo (textbook formulas, 60 lines)'],
}

_COMP = ('_x', '_y', '_z')


def geom(ctx, g, dims):
    cls, nd, cs, labels = GRIDS[g]
    m, fs = scen.mesh(ctx, g, dims)
    geo = scen.Geo(ctx, g, fs)
    tag = 'C10/%s/%s' % (g, 'x'.join(map(str, dims)))
    ctx.fact(tag + '/dims', list(int(d) for d in m.dims) == list(dims), 'dims reported %s' % (m.dims,))
    for ax in range(nd):
        fc = getattr(m.facecenters, _COMP[ax])
        cc = getattr(m.cellcenters, _COMP[ax])
        cz = getattr(m.cellsize, _COMP[ax])
        n = dims[ax]
        ctx.fact(tag + '/shape/%s' % AX[ax], len(fc) == n + 1 and len(cc) == n and len(cz) == n + 2)
        for i in range(n + 1):
            ctx.same_term(tag + '/face/%s/%d' % (AX[ax], i), fc[i], fs[ax][i])
        for i in range(n):
            ctx.eq(tag + '/centre/%s/%d' % (AX[ax], i), cc[i], (fs[ax][i] + fs[ax][i + 1]) / 2)
            ctx.eq(tag + '/size/%s/%d' % (AX[ax], i), cz[i + 1], fs[ax][i + 1] - fs[ax][i])
        ctx.eq(tag + '/ghostsize/%s/lo' % AX[ax], cz[0], fs[ax][1] - fs[ax][0])
        ctx.eq(tag + '/ghostsize/%s/hi' % AX[ax], cz[n + 1], fs[ax][n] - fs[ax][n - 1])
    V = m.cellvolume
    ctx.fact(tag + '/volshape', tuple(V.shape) == tuple(dims))
    tot = ctx.const(0)
    for idx in itertools.product(*[range(n) for n in dims]):
        v = V[idx]
        ctx.eq(tag + '/vol/' + '_'.join(map(str, idx)), v, geo.volume(idx), rel=1e-12)
        ctx.holds(tag + '/volpos/' + '_'.join(map(str, idx)), v > 0)
        tot = tot + v
    # domainIntegral of the unit field = sum of volumes = oracle domain volume
    one = pf.CellVariable(m, 1.0)
    ctx.eq(tag + '/total', one.domainIntegral(), geo.domain_volume(), rel=1e-12)


def nl_form(ctx, g, dims):
    """(N, L) constructor == face-position constructor on equispaced faces f_i = i L / N"""
    cls, nd, cs, labels = GRIDS[g]
    Ls = []
    for ax in range(nd):
        hi = None
        if labels[ax] == 'theta':
            hi = scen.PI if cs == 'sph3' else scen.TWO_PI
        if labels[ax] == 'phi':
            hi = scen.TWO_PI
        Ls.append(ctx.real('L' + AX[ax], 'pos', hi=hi))
    m = cls(*(list(dims) + Ls))
    tag = 'C10/%s/NL/%s' % (g, 'x'.join(map(str, dims)))
    ctx.fact(tag + '/dims', list(int(d) for d in m.dims) == list(dims))
    fs = []
    for ax in range(nd):
        n = dims[ax]
        f = [Ls[ax] * i / n for i in range(n + 1)]
        fs.append(np.array(f, dtype=object if ctx.sym else float))
        fc = getattr(m.facecenters, _COMP[ax])
        cc = getattr(m.cellcenters, _COMP[ax])
        cz = getattr(m.cellsize, _COMP[ax])
        ctx.fact(tag + '/shape/%s' % AX[ax], len(fc) == n + 1 and len(cc) == n and len(cz) == n + 2)
        for i in range(n + 1):
            ctx.eq(tag + '/face/%s/%d' % (AX[ax], i), fc[i], f[i])
        for i in range(n):
            ctx.eq(tag + '/centre/%s/%d' % (AX[ax], i), cc[i], (f[i] + f[i + 1]) / 2)
        for i in range(n + 2):
            ctx.eq(tag + '/size/%s/%d' % (AX[ax], i), cz[i], Ls[ax] / n)
    if cs == 'sph3' and ctx.sym:
        scen.sph_axioms(ctx, m)
    m2 = cls(*[scen.symnp.symarray(f) if ctx.sym else f for f in fs])
    V1, V2 = m.cellvolume, m2.cellvolume
    for idx in itertools.product(*[range(n) for n in dims]):
        ctx.eq(tag + '/vol_eq_faceform/' + '_'.join(map(str, idx)), V1[idx], V2[idx])


def labels(ctx, g):
    """coordinate labels: reachable only under the class's own labels (exhaustive; shared with C16)"""
    cls, nd, cs, labs = GRIDS[g]
    dims = [2] * nd
    m, fs = scen.mesh(ctx, g, dims)
    tag = 'C10/%s/labels' % g
    for holder_name in ('cellcenters', 'facecenters', 'cellsize'):
        holder = getattr(m, holder_name)
        for lab in ('x', 'y', 'z', 'r', 'theta', 'phi'):
            try:
                v = getattr(holder, lab)
                got = 'ok'
            except AttributeError:
                got = 'AttributeError'
            except Exception as e:      # noqa
                got = type(e).__name__
            if lab in labs:
                ok = got == 'ok' and v is getattr(holder, _COMP[labs.index(lab)])
            else:
                ok = got == 'AttributeError'
            ctx.fact(tag + '/%s/%s' % (holder_name, lab), ok, 'label %s on %s.%s -> %s' % (lab, g, holder_name, got))


def scenarios(tier):
    T = []
    d1 = [(1,), (2,), (3,), (4,)]
    d2q = [(1, 1), (2, 3), (3, 2), (1, 3), (2, 2)]
    d2t = list(itertools.product((1, 2, 3), repeat=2))
    d3q = [(1, 1, 1), (2, 2, 2), (3, 2, 2), (2, 3, 2), (2, 2, 3)]
    d3t = d3q + [(3, 3, 3), (1, 2, 3)]
    for g in scen.ALL:
        nd = scen.ndim(g)
        dl = d1 if nd == 1 else ((d2t if tier == 'thorough' else d2q) if nd == 2 else (d3t if tier == 'thorough' else d3q))
        for dims in dl:
            T.append({'name': 'geom/%s/%s' % (g, 'x'.join(map(str, dims))), 'fn': 'pv.props.c10:geom',
                      'params': {'g': g, 'dims': list(dims)}, 'timeout': 30,
                      'validate': 2 if tier == 'quick' else 4, 'crosscheck': tier == 'thorough'})
        nl = dl if tier == 'thorough' else {1: [(1,), (3,)], 2: [(1, 1), (2, 3), (3, 2)], 3: [(1, 1, 1), (2, 3, 2), (1, 2, 3)]}[nd]
        for dims in nl:
            T.append({'name': 'NL/%s/%s' % (g, 'x'.join(map(str, dims))), 'fn': 'pv.props.c10:nl_form',
                      'params': {'g': g, 'dims': list(dims)}, 'timeout': 30, 'validate': 1})
        T.append({'name': 'labels/%s' % g, 'fn': 'pv.props.c10:labels', 'params': {'g': g}, 'validate': 1})
    T.sort(key=lambda t: -int(np.prod(t['params'].get('dims', [1]))))
    return T
