"""C03 Reported boundary values satisfy the configured boundary conditions."""
import itertools
import numpy as np
import pyfvtool as pf
from .. import scen, ops

META = {
    'level': 'proof',
    'functions': ['boundary.BoundaryConditions*', 'boundary.BoundaryFace (a,b,c setters, periodic)', 'boundary.cellValuesWithBoundaries* (6 variants)',
                  'boundary.boundaryConditionsTerm* (6 variants)', 'cell.CellVariable.__init__', 'cell.CellVariable.apply_BCs',
                  'cell.CellVariable.plotprofile', 'pdesolver.solvePDE', 'pdesolver.solveExplicitPDE'],
    'bounds': 'all 9 grid classes; dims 1-D {1,2,3}, 2-D (2,2),(1,2),(2,1) (+(3,2) thorough), 3-D (2,2,2) (+(1,2,2),(2,1,2) thorough); '
              'EVERY subset of admissible axes periodic (either side flag set), all other sides fully symbolic face-wise (a,b,c); '
              'interior field and spacing symbolic; after each of construction / apply_BCs / solvePDE / solveExplicitPDE',
    'outside': 'larger cell counts; degenerate Robin triples with vanishing ghost coefficient (+-a/d + b/2 = 0) are a stated precondition',
    'assumptions': ['derivative in a*dphi/dn + b*phi = c is taken in the positive coordinate direction on every side, as the library documents',
                    'ghost coefficient +-a/(d*metric)+b/2 != 0 (the relation does not determine the ghost value otherwise)'],
    'trusted_base': ['metric factors 1, r_P, r_P sin(theta_P) from pv/scen.py:Geo'],
}


def _boundary_faces(dims):
    """(ax, side, ghost cell, inner cell) for every boundary face, full-array indices"""
    out = []
    nd = len(dims)
    for ax in range(nd):
        others = [range(1, dims[b] + 1) if b != ax else [None] for b in range(nd)]
        for rest in itertools.product(*others):
            for side in ('lo', 'hi'):
                g_ = list(rest); i_ = list(rest)
                g_[ax] = 0 if side == 'lo' else dims[ax] + 1
                i_[ax] = 1 if side == 'lo' else dims[ax]
                out.append((ax, side, tuple(g_), tuple(i_)))
    return out


def _face_coef(f, ax, cell, nd):
    """BC coefficient arrays (a,b,c) of BoundaryFace f at the boundary face next to interior cell `cell`"""
    idx = tuple(k - 1 for b, k in enumerate(cell) if b != ax)
    a, b, c = np.asarray(f.a), np.asarray(f.b), np.asarray(f.c)
    if nd == 1:
        return a.ravel()[0], b.ravel()[0], c.ravel()[0]
    return a.reshape(a.size if nd == 2 else a.shape)[idx if nd == 3 else idx[0]], \
        b.reshape(b.size if nd == 2 else b.shape)[idx if nd == 3 else idx[0]], \
        c.reshape(c.size if nd == 2 else c.shape)[idx if nd == 3 else idx[0]]


def bcs(ctx, g, dims, periodic=(), op='construct', flagside='lo', equal_ends=False):
    nd = len(dims)
    per = tuple(periodic)
    m, fs = scen.mesh(ctx, g, dims)
    geo = scen.Geo(ctx, g, fs)
    if equal_ends:
        for ax in per:
            ctx.assume((fs[ax][1] - fs[ax][0]) == (fs[ax][dims[ax]] - fs[ax][dims[ax] - 1]))
    BC = pf.BoundaryConditions(m)
    for ax in range(nd):
        lo_s, hi_s = scen.SIDES[2 * ax], scen.SIDES[2 * ax + 1]
        if ax in per:
            getattr(BC, lo_s if flagside == 'lo' else hi_s).periodic = True
        else:
            scen.set_robin(ctx, BC, lo_s)
            scen.set_robin(ctx, BC, hi_s)
    vals = ctx.arr('v', tuple(dims))
    phi = pf.CellVariable(m, vals, BC)
    tag = 'C03/%s/%s/%s/%s%s' % (g, 'x'.join(map(str, dims)), 'per' + ''.join(scen.AX[a] for a in per) + flagside if per else 'noper',
                                 op, '/eq' if equal_ends else '')
    sol = None
    if op == 'apply':
        phi.value = ctx.arr('w', tuple(dims))
        phi.apply_BCs()
    elif op == 'solve':
        sol = scen.Solver(ctx)
        beta = scen.cellvar(ctx, m, 'be')
        pf.solvePDE(phi, [pf.linearSourceTerm(beta), pf.constantSourceTerm(scen.cellvar(ctx, m, 'ga'))], externalsolver=sol)
    elif op == 'explicit':
        n = int(np.prod(scen.full_shape(dims)))
        rhs = ctx.arr('R', (n,))
        dt = ctx.real('dt', 'pos')
        phi = pf.solveExplicitPDE(phi, dt, rhs)
        BC = phi.BCs
    full = phi._value
    G = scen.cell_index(dims)
    Mbc, Rbc = pf.boundaryConditionsTerm(phi.BCs)
    rows = scen.mat_rows(Mbc)
    fl = scen.flat(full)
    ctx.fact(tag + '/shape', tuple(full.shape) == scen.full_shape(dims))
    # interior values are what was put in / computed
    for ax, side, gc, ic in _boundary_faces(dims):
        f = getattr(phi.BCs, scen.SIDES[2 * ax + (0 if side == 'lo' else 1)])
        nm = '%s%s/%s' % (scen.AX[ax], side, '_'.join(map(str, ic)))
        pg, pi = full[gc], full[ic]
        r = int(G[gc])
        if ax in per:
            other = list(ic)
            other[ax] = dims[ax] if side == 'lo' else 1
            ctx.eq('%s/wrap/%s' % (tag, nm), pg, full[tuple(other)])
            # solver row vs reported ghost values (holds iff the two end cells have equal size)
            ctx.eq('%s/%s/%s' % (tag, 'bcrow_periodic_equal_ends' if equal_ends else 'bcrow_periodic', nm),
                   scen.matvec_row(rows, r, fl, ctx), Rbc[r])
        else:
            a, b, c = _face_coef(f, ax, ic, nd)
            i0 = tuple(k - 1 for k in ic)
            d = geo.d(ax, i0[ax]) * geo.metric(ax, i0)
            lo_v, hi_v = (pg, pi) if side == 'lo' else (pi, pg)
            gcoef = (-a / d + b / 2) if side == 'lo' else (a / d + b / 2)
            ctx.eq('%s/robin/%s' % (tag, nm), a * (hi_v - lo_v) / d + b * (hi_v + lo_v) / 2, c, pre=[gcoef != 0])
            ctx.eq('%s/bcrow/%s' % (tag, nm), scen.matvec_row(rows, r, fl, ctx), Rbc[r], pre=[gcoef != 0])
            ctx.nonzero('%s/bcrow_diag/%s' % (tag, nm), scen.mat_get(Mbc, r, r), pre=[gcoef != 0])
    # corner / edge rows: harmless, non-singular, homogeneous
    allg = []
    for ax, side, gc, ic in _boundary_faces(dims):
        if ax not in per:
            f = getattr(phi.BCs, scen.SIDES[2 * ax + (0 if side == 'lo' else 1)])
            a, b, c = _face_coef(f, ax, ic, nd)
            i0 = tuple(k - 1 for k in ic)
            d = geo.d(ax, i0[ax]) * geo.metric(ax, i0)
            allg.append(((-a / d + b / 2) if side == 'lo' else (a / d + b / 2)) != 0)
    for cc in scen.all_cells(dims):
        if scen.n_out(cc, dims) >= 2:
            r = int(G[cc])
            ctx.eq('%s/corner_rhs/%s' % (tag, '_'.join(map(str, cc))), Rbc[r], 0.0)
    if op == 'solve':
        # the boundary rows handed to the solver are the rows of boundaryConditionsTerm(BCs)
        srows = scen.mat_rows(sol.M)
        for ax, side, gc, ic in _boundary_faces(dims):
            r = int(G[gc])
            keys = sorted({j for j, _ in rows.get(r, [])} | {j for j, _ in srows.get(r, [])})
            for j in keys:
                ctx.same_term('%s/solver_row/%s/%d' % (tag, '_'.join(map(str, gc)), j), scen.mat_get(sol.M, r, j), scen.mat_get(Mbc, r, j))
            ctx.same_term('%s/solver_rhs/%s' % (tag, '_'.join(map(str, gc))), sol.RHS[r], Rbc[r])
        xv = np.asarray(sol.x).reshape(scen.full_shape(dims))
        for ic in scen.interior_cells(dims):
            ctx.same_term('%s/interior_is_solution/%s' % (tag, '_'.join(map(str, ic))), full[ic], xv[ic])
    # plot profile: boundary entries are the face averages
    prof = phi.plotprofile()[-1]
    for ax, side, gc, ic in _boundary_faces(dims):
        ctx.eq('%s/profile/%s%s/%s' % (tag, scen.AX[ax], side, '_'.join(map(str, ic))), prof[gc], (full[gc] + full[ic]) / 2)


def scaling(ctx, g, dims):
    """(a,b,c) -> (lam a, lam b, lam c), lam != 0 per side: same ghost values; boundary rows scaled by lam"""
    nd = len(dims)
    m, fs = scen.mesh(ctx, g, dims)
    BC1 = pf.BoundaryConditions(m)
    BC2 = pf.BoundaryConditions(m)
    lam = {}
    for sd in scen.sides_of(g):
        f1 = scen.set_robin(ctx, BC1, sd)
        lam[sd] = ctx.real('lam_' + sd, 'nz')
        f2 = getattr(BC2, sd)
        f2.a[:] = np.asarray(f1.a) * lam[sd]
        f2.b[:] = np.asarray(f1.b) * lam[sd]
        f2.c[:] = np.asarray(f1.c) * lam[sd]
    vals = ctx.arr('v', tuple(dims))
    p1 = pf.CellVariable(m, vals, BC1)
    p2 = pf.CellVariable(m, vals, BC2)
    G = scen.cell_index(dims)
    M1, R1 = p1._BCsTerm
    M2, R2 = p2._BCsTerm
    tag = 'C03/%s/%s/scaling' % (g, 'x'.join(map(str, dims)))
    for ax, side, gc, ic in _boundary_faces(dims):
        sd = scen.SIDES[2 * ax + (0 if side == 'lo' else 1)]
        nm = '%s%s/%s' % (scen.AX[ax], side, '_'.join(map(str, ic)))
        ctx.eq('%s/ghost/%s' % (tag, nm), p2._value[gc], p1._value[gc])
        r = int(G[gc])
        for j in sorted({int(G[gc]), int(G[ic])}):
            ctx.eq('%s/row/%s/%d' % (tag, nm, j), scen.mat_get(M2, r, j), lam[sd] * scen.mat_get(M1, r, j))
        ctx.eq('%s/rhs/%s' % (tag, nm), R2[r], lam[sd] * R1[r])


def scenarios(tier):
    T = []
    D = {1: [[1], [2], [3]], 2: [[2, 2], [1, 2], [2, 1]], 3: [[2, 2, 2], [1, 2, 3]]}
    if tier == 'thorough':
        D = {1: [[1], [2], [3], [4]], 2: [[2, 2], [1, 2], [2, 1], [3, 2], [2, 3]], 3: [[2, 2, 2], [1, 2, 2], [2, 1, 2], [2, 2, 1]]}
    for g in scen.ALL:
        nd = scen.ndim(g)
        for di, dims in enumerate(D[nd]):
            for per in scen.periodic_patterns(g):
                for op in ('construct', 'apply', 'solve', 'explicit'):
                    if tier == 'quick' and op != 'construct' and (di > 0 or len(per) > 1):
                        continue
                    for flagside in (('lo', 'hi') if per and (tier == 'thorough' or (op == 'construct' and len(per) == 1 and di == 0)) else ('lo',)):
                        for eq in ((False, True) if per and op == 'construct' else (False,)):
                            T.append({'name': 'bcs/%s/%s/per%s%s/%s%s' % (g, 'x'.join(map(str, dims)), ''.join(map(str, per)), flagside, op, '/eq' if eq else ''),
                                      'fn': 'pv.props.c03:bcs',
                                      'params': {'g': g, 'dims': dims, 'periodic': list(per), 'op': op, 'flagside': flagside,
                                                 'equal_ends': eq}, 'timeout': 30, 'validate': 1})
            T.append({'name': 'scaling/%s/%s' % (g, 'x'.join(map(str, dims))), 'fn': 'pv.props.c03:scaling',
                      'params': {'g': g, 'dims': dims}, 'timeout': 30, 'validate': 1})
    T.sort(key=lambda t: -int(np.prod(t['params']['dims'])) - (100 if 'Spherical' in t['name'] else 0))
    return T
