# table of claims; exec'd by tools/mkmanifest.py
claim('C01', 'proof',
      'Bounded proof (per obligation: z3 unsat over all real inputs): on every grid class the volume-weighted column sums of the '
      'matrices built by the real diffusionTerm/convectionTerm/convectionUpwindTerm for a coefficient on one interior face vanish; '
      'boundary faces carry exactly area x documented face flux (independent area oracle); divergenceTerm and the TVD correction '
      'likewise; one implicit (solver stub, residual-sum identity) or explicit step from an arbitrary state keeps domainIntegral() '
      'for closed / periodic configurations; with open boundaries (symbolic Robin data, wall velocities and diffusivities) the change of '
      'the integral over one implicit or explicit step equals the net oracle flux through the boundary faces (discharged column by column). '
      'Known findings: SphericalGrid3D family, upwind x periodic axis.',
      'DESIGN.md 2/C01')
claim('C05', 'proof',
      'Bounded proof: for a symbolic coefficient on each face in turn and a fully symbolic field incl. ghost cells, the rows of the '
      'matrices of diffusionTerm / convectionTerm / convectionUpwindTerm(u, u_upwind) (public dispatchers) equal '
      'divergenceTerm(coef * gradientTerm | linearMean | upwindMean) on all 9 grid classes; TVD: zero limiter gives 0, unit limiter on '
      'uniform spacing turns upwind into central; solveExplicitPDE advances by the same operator.',
      'DESIGN.md 2/C05')
claim('C06', 'proof',
      'Bounded proof: diffusion of a constant is 0, central/upwind advection of a constant k is k*divergenceTerm(u) (face basis, all '
      'sign patterns as ite), TVD of a constant is 0 and total; the uniform state has zero residual in the system the real solvePDE '
      'assembles for transient+diffusion+upwind in a discretely divergence-free field (Dirichlet k / no-flux / periodic); source terms '
      'alone give a diagonal system with solution gamma/beta.',
      'DESIGN.md 2/C06')
claim('C10', 'proof',
      'Bounded proof: every geometric quantity the grid constructors report (dims, faces, centres, sizes incl. ghost sizes, '
      'per-cell volume, positivity, total) is shown equal to an independent textbook oracle for ALL strictly increasing face '
      'positions (symbolic reals) on all 9 grid classes and both constructor forms, for the listed cell counts; coordinate labels '
      'enumerated exhaustively. Known finding: SphericalGrid3D volumes.',
      'DESIGN.md 2/C10')
claim('C13', 'proof',
      'Bounded proof: each of the 16 limiter closures (and the fallback) equals the published closed form for every real r, is total '
      '(all denominators non-zero for every real r), satisfies psi(1)=1, 0<=psi<=min(2r,4) for r>0, vanishes for r<=0 where defined by '
      'clipping, acts elementwise on 0-3-D arrays; the TVD correction has no vanishing denominator for any field on all 9 grid classes.',
      'DESIGN.md 2/C13')

claim('C03', 'proof',
      'Bounded proof: after construction, apply_BCs, solvePDE (solver stub) and solveExplicitPDE the ghost values the real code stores satisfy '
      'a*(difference quotient incl. 1/r, 1/(r sin theta)) + b*(face average) = c face by face for fully symbolic face-wise (a,b,c), wrap exactly '
      'on the axes declared periodic and only there (every subset of admissible axes, either side flag); boundary rows of '
      'boundaryConditionsTerm have zero residual on the reported array and are the rows handed to the solver; plot profile entries are the '
      'face averages; (lam a, lam b, lam c) leaves ghosts unchanged and scales rows by lam. Known finding: periodic axis with unequal end cells.',
      'DESIGN.md 2/C03')
claim('C04', 'proof',
      'Bounded proof: the (M, RHS) the real solvePDE hands to the solver equals Mbc + sum(+-lam M_k), RHSbc + sum(+-lam v_k) entry by entry for '
      'term lists drawn from a grammar (matrix/vector/pair, negated, scaled, permuted, duplicated, empty); the same object is returned with the '
      'solver vector stored and ghosts re-imposed; terms touch interior rows only; M is free of source/BC-data/old-value symbols and RHS is '
      'affine in them; scipy-spsolve path, externalsolver path and solveMatrixPDE receive the identical system.',
      'DESIGN.md 2/C04')
claim('C11', 'proof',
      'Bounded proof: linear/arithmetic/geometric/harmonic means lie between the adjacent cell values for positive data, reproduce constants, '
      'H <= G <= A with the same width weights (exp/log uninterpreted with listed true axiom instances), linearMean is exact for linear fields on '
      'non-uniform faces, upwindMean returns donor / boundary / average values per velocity sign, every face value mentions only the two adjacent '
      'cells, values with exact zeros are finite (1-D loop variants explored path by path) and 2-D/3-D agree with 1-D on grid lines.',
      'DESIGN.md 2/C11')
claim('C12', 'proof',
      'Bounded proof: interior rows of the system solvePDE assembles with transientTerm equal alpha (x-old)/dt + (S x - s) for scalar and per-cell '
      'alpha and symbolic dt (hence steady solutions are fixed points; dt*row is polynomial in dt); solveExplicitPDE gives old + dt*RHS with ghosts '
      're-imposed, leaves its input untouched and its result is usable by solvePDE; implicit minus explicit step equals -(dt/alpha) A (x-old); '
      'the ghost layer reported after an implicit step satisfies the boundary rows of the assembled system (one closure for both steps).',
      'DESIGN.md 2/C12')
claim('C17', 'proof',
      'Bounded proof: with lengths x L, time x T, field x K (symbolic positive) every entry of every builder scales by exactly 1/T, every vector '
      'term by K/T, boundary rows are unchanged with RHS x K, ghosts x K, volumes x L^d; TVD correction scales by K/T (cube-split) under the '
      'stated threshold assumption; every builder is linear in its coefficient (scale, add per face) and separable per face on the fully '
      'symbolic field (the lemma the face-basis checks rely on). Known finding: _fsign absolute threshold.',
      'DESIGN.md 2/C17')

claim('C02', 'proof',
      'Bounded proof of the consistency/exactness form: every interior row of the system the real solvePDE assembles for transient + central '
      'convection + diffusion + linear + constant source equals, for exact samples of an affine (non-uniform faces) or quadratic (uniform spacing '
      'h symbolic) manufactured solution with symbolic coefficients, the reference finite-volume balance built from an independent geometry '
      'oracle and the exact p, dp/dn at face centres - pinning every metric factor, sign and coefficient placement - and every boundary row is '
      'the Robin relation at the face (second-order remainders +-b c2 h^2/4, u c2 h^2/4 proved as identities). The asymptotic refinement claim '
      'itself is outside reach and stated so.',
      'DESIGN.md 2/C02')
claim('C07', 'proof',
      'Bounded proof: the rows the real solvePDE assembles for transient + diffusion(D>=0) + upwind + sink have non-positive off-diagonals, row sum '
      'alpha/dt + beta + div(u), RHS alpha old/dt and ghost rows of Dirichlet / no-flux / periodic shape on all 9 grid classes (S1-S4); a '
      'code-independent M-matrix lemma (all neighbour-kind splits, k = 2,4,6) and an abstract chain composition (n <= 4/6) give x within the '
      'range of old values, Dirichlet data (and 0 with a sink).',
      'DESIGN.md 2/C07')
claim('C08', 'proof',
      'Bounded proof in residual-transfer form: rows of the high-dimensional / permuted / mirrored / shifted system evaluated at the lift of the '
      'low unknowns equal the low rows (extra rows vanish), through the real solvePDE, for every embedding pair, axis permutation, mirror and '
      'periodic shift, incl. TVD where argument terms are structurally identical. Known finding: upwind is not shift invariant on periodic axes.',
      'DESIGN.md 2/C08')
claim('C09', 'model_checking',
      'Bounded-exhaustive exploration of edit/solve histories (24 operations; all written values are fresh symbols, so each history is decided '
      'for all values) plus a fixed-seed random set of longer histories (length 3..7): after every history the system captured from the real solvePDE / the result of solveExplicitPDE is compared entry by entry '
      'with that of a variable freshly constructed from the visible state. Known finding: shared BC object.',
      'DESIGN.md 2/C09')
claim('C14', 'proof',
      'Bounded proof on terms: every operator / reflected operator / funceval / celleval / faceeval result equals the elementwise oracle on the '
      'operand symbols (wrong operand order or a non-elementwise result changes the term), operands are unchanged (term and object identity), '
      'results carry a deep copy of the left-most operand BCs with a consistent ghost layer, and results and operands are mutually independent '
      '(shares_memory + write probes).',
      'DESIGN.md 2/C14')
claim('C15', 'proof',
      'Bounded proof on terms: every public builder leaves grid, coefficient variables, solution variable and cached BC term untouched (object ids, '
      'element terms, dirty flags), two calls give identical terms (functional determinism for all inputs under the real-arithmetic model), '
      'returned arrays neither share memory with nor write through to grid/input storage; solvePDE changes only its variable and terms are '
      'reusable; solveMatrixPDE / solveExplicitPDE change nothing they are given.',
      'DESIGN.md 2/C15')
claim('C16', 'exploration',
      'Exhaustive enumeration (finite request space, exhaustive: true) through the real constructors and properties: coordinate and component '
      'labels (get and set), periodic flags on every subset of sides, initial-value shape families, constructor arities 0..7 in both argument '
      'styles, non-array BC coefficients and 10 non-term objects raise exactly the documented exception type; every documented form, label and '
      'term kind is accepted for N in {1,2,3} per axis.',
      'DESIGN.md 2/C16',
      tech='exhaustive enumeration of the finite request space through the real API (degenerate use of the technique: no arithmetic to '
           'encode; every case is one concrete path with its expected outcome from a table derived from the coordinate systems)')
_todo = 'check under construction in this session (engine present; obligation family not landed yet)'
for _p in ['C01','C02','C03','C04','C05','C06','C07','C08','C09','C11','C12','C13','C14','C15','C16','C17']:
    if _p not in CHECKS:
        NA[_p] = _todo
