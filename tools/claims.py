# table of claims; exec'd by tools/mkmanifest.py
claim('C10', 'proof',
      'Bounded proof: every geometric quantity the grid constructors report (dims, faces, centres, sizes incl. ghost sizes, '
      'per-cell volume, positivity, total) is shown equal to an independent textbook oracle for ALL strictly increasing face '
      'positions (symbolic reals) on all 9 grid classes and both constructor forms, for the listed cell counts; coordinate labels '
      'enumerated exhaustively.',
      'DESIGN.md 2/C10')
_todo = 'check under construction in this session (engine present; obligation family not landed yet)'
for _p in ['C01','C02','C03','C04','C05','C06','C07','C08','C09','C11','C12','C13','C14','C15','C16','C17']:
    if _p not in CHECKS:
        NA[_p] = _todo
