# table of claims; exec'd by tools/mkmanifest.py
claim('C01', 'proof',
      'Bounded proof (per obligation: z3 unsat over all real inputs): on every grid class the volume-weighted column sums of the '
      'matrices built by the real diffusionTerm/convectionTerm/convectionUpwindTerm for a coefficient on one interior face vanish; '
      'boundary faces carry exactly area x documented face flux (independent area oracle); divergenceTerm and the TVD correction '
      'likewise; one implicit (solver stub, residual-sum identity) or explicit step from an arbitrary state keeps domainIntegral() '
      'for closed / periodic configurations. Known findings: SphericalGrid3D family, upwind x periodic axis.',
      'DESIGN.md 2/C01')
claim('C05', 'proof',
      'Bounded proof: for a symbolic coefficient on each face in turn and a fully symbolic field incl. ghost cells, the rows of the '
      'matrices of diffusionTerm / convectionTerm / convectionUpwindTerm(u, u_upwind) (public dispatchers) equal '
      'divergenceTerm(coef * gradientTerm | linearMean | upwindMean) on all 9 grid classes; TVD: zero limiter gives 0, unit limiter on '
      'uniform spacing turns upwind into central; solveExplicitPDE advances by the same operator.',
      'DESIGN.md 2/C05')
claim('C06', 'proof',
      'Bounded proof: diffusion of a constant is 0, central/upwind advection of a constant k is k*divergenceTerm(u) (face basis, all '
      'sign patterns as ite), TVD of a constant is 0 and total; the uniform state has zero residual in the system the real solvePDE '
      'assembles for transient+diffusion+upwind in a discretely divergence-free field (Dirichlet k / no-flux / periodic); source terms '
      'alone give a diagonal system with solution gamma/beta.',
      'DESIGN.md 2/C06')
claim('C10', 'proof',
      'Bounded proof: every geometric quantity the grid constructors report (dims, faces, centres, sizes incl. ghost sizes, '
      'per-cell volume, positivity, total) is shown equal to an independent textbook oracle for ALL strictly increasing face '
      'positions (symbolic reals) on all 9 grid classes and both constructor forms, for the listed cell counts; coordinate labels '
      'enumerated exhaustively. Known finding: SphericalGrid3D volumes.',
      'DESIGN.md 2/C10')
claim('C13', 'proof',
      'Bounded proof: each of the 16 limiter closures (and the fallback) equals the published closed form for every real r, is total '
      '(all denominators non-zero for every real r), satisfies psi(1)=1, 0<=psi<=min(2r,4) for r>0, vanishes for r<=0 where defined by '
      'clipping, acts elementwise on 0-3-D arrays; the TVD correction has no vanishing denominator for any field on all 9 grid classes.',
      'DESIGN.md 2/C13')
_todo = 'check under construction in this session (engine present; obligation family not landed yet)'
for _p in ['C01','C02','C03','C04','C05','C06','C07','C08','C09','C11','C12','C13','C14','C15','C16','C17']:
    if _p not in CHECKS:
        NA[_p] = _todo
