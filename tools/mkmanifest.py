#!/usr/bin/env python3
"""Regenerates /verif/MANIFEST.json from the table below (run after adding a property check)."""
import json
import os

HERE = os.path.dirname(os.path.dirname(os.path.abspath(__file__)))

TECH = ('symbolic execution of the real NumPy code over object arrays of symbolic reals (pv/symreal.py, pv/symnp.py), '
        'obligations as SMT-LIB QF_(UF)NRA queries decided by z3 4.8.12 (unsat = holds for all inputs within the bounds), '
        'counterexamples replayed on the unpatched code')
NOTE = ('Bounded: cell counts per axis and scenario families as listed in the evidence file (coverage.bounds); '
        'float64 arithmetic modelled as exact real arithmetic with every float64 literal mapped to the simplest real that round-trips to it (rounding, overflow, NaN '
        'propagation outside the claim); trusted: z3 verdicts, the tracing layer (validated on every run against real '
        'NumPy/SciPy at random points), the independent oracles named in coverage.trusted_base; environment stubs: np shim, '
        'SymCSR for csr_array, SymTracked for TrackedArray, solver stub returning fresh unknowns under the hypothesis M x = RHS.')

# id -> (category, text, design_ref, technique-extra)
CHECKS = {}
NA = {}


def claim(pid, cat, text, ref, tech=TECH, note=NOTE):
    CHECKS[pid] = dict(cat=cat, text=text, ref=ref, tech=tech, note=note)


exec(open(os.path.join(HERE, 'tools', 'claims.py')).read())

man = {
    'version': 1,
    'setup_cmd': './check --selftest',
    'hooks': {
        'guard': 'PYFVTOOL_VERIF',
        'enable': 'no source hooks are needed: all instrumentation (np shim, SymCSR, SymTracked, solver stub) is installed by the '
                  'harness into module globals of the imported pyfvtool modules at run time; the guard name is reserved only',
        'baseline_off_cmd': 'cd /repo && /venv/bin/python -m pytest -ra -q -p no:cacheprovider --timeout=900 '
                            '--continue-on-collection-errors',
        'source_commits': [],
        'add_only': True,
    },
    'engines': [
        {'name': 'pv', 'path': 'pv/', 'serves_properties': sorted(CHECKS),
         'kind_free_text': 'symbolic execution of the real Python/NumPy code (object-dtype arrays of symbolic reals, module-global '
                           'stubs) + SMT (z3 4.8.12, z3 5.1.0 cross-checks) + concrete replay'},
    ],
    'checks': [],
    'notes': 'Exit codes of ./check: 0 all required obligations discharged (KNOWN-FINDING lines possible); 1 VIOLATION '
             '(replay-confirmed, not in known_findings.json); 2 harness error; 3 inconclusive. Known findings: known_findings.json.',
    'not_applicable': [{'property_id': k, 'reason': v} for k, v in sorted(NA.items())],
}
for pid in sorted(CHECKS):
    c = CHECKS[pid]
    man['checks'].append({
        'property_id': pid,
        'quick_cmd': './check %s quick' % pid,
        'thorough_cmd': './check %s thorough' % pid,
        'evidence_file': 'evidence/%s.json' % pid,
        'replay_cmd_template': './check --replay {path}',
        'engine': 'pv',
        'level_claimed': {'category': c['cat'], 'text': c['text'], 'design_ref': c['ref']},
        'level_note': c['note'],
        'technique': c['tech'],
    })
json.dump(man, open(os.path.join(HERE, 'MANIFEST.json'), 'w'), indent=1)
print('MANIFEST.json: %d checks, %d not_applicable' % (len(man['checks']), len(man['not_applicable'])))
