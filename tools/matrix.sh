#!/bin/sh
# tools/matrix.sh "<seed ids>" "<check ids>" : run checks against seeded changes on a SCRATCH clone of /repo (PV_REPO),
# so that /repo and evidence/ are untouched.  Output: one line per (seed, check).
seeds=$1; checks=$2
work=${MATRIX_DIR:-/tmp/matrix}
rm -rf $work && mkdir -p $work && git clone -q /repo $work/repo || exit 2
cd "$(dirname "$0")/.." || exit 2
for s in $seeds; do
  git -C $work/repo checkout -q -- . ; git -C $work/repo apply /verif/seeded/$s/patch.diff || { echo "MATRIX $s: patch does not apply"; continue; }
  for c in $checks; do
    t0=$(date +%s)
    out=$(PV_REPO=$work/repo PV_EVIDENCE_DIR=$work/evidence PV_REPLAY_DIR=$work/replays ./check $c ${TIER:-quick} 2>&1); rc=$?
    t1=$(date +%s)
    echo "MATRIX seed=$s check=$c rc=$rc violations=$(echo "$out" | grep -c '^VIOLATION') $((t1-t0))s $(echo "$out" | grep '^counterexample' | head -1 | cut -c1-120)"
  done
done
rm -rf $work
