#!/bin/sh
# runs the pinned test suite of /repo (guard off; there are no hooks) and prints the summary line
cd /repo && /venv/bin/python -m pytest -q -p no:cacheprovider --timeout=900 --continue-on-collection-errors "$@" 2>&1 | tail -15
