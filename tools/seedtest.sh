#!/bin/sh
# tools/seedtest.sh <patch.diff> <check ids...> : apply a seeded change to /repo, run the named quick checks, undo.
# evidence/ is saved and restored (evidence must come from the unchanged tree).
patch=$1; shift
cd "$(dirname "$0")/.." || exit 2
if [ -n "$(git -C /repo status --porcelain)" ]; then echo "/repo not clean"; exit 2; fi
rm -rf /tmp/evid_backup && cp -r evidence /tmp/evid_backup
git -C /repo apply "$patch" || { echo "patch does not apply"; exit 2; }
for p in "$@"; do
  s=$(date +%s)
  out=$(./check $p ${TIER:-quick} 2>&1); rc=$?
  e=$(date +%s)
  nv=$(echo "$out" | grep -c "^VIOLATION")
  echo "SEED $(basename $(dirname $patch))/$(basename $patch) check=$p rc=$rc violations=$nv $((e-s))s :: $(echo "$out" | grep '^counterexample' | head -2 | cut -c1-160 | tr '\n' '|')"
  echo "$out" | grep -E "^(HARNESS-ERROR|INCONCLUSIVE)" | head -3 | cut -c1-250
done
git -C /repo checkout -- .
rm -rf evidence && mv /tmp/evid_backup evidence
git -C /repo status --porcelain | head -3
