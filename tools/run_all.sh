#!/bin/sh
# runs every registered check of one tier in sequence; prints one summary line per property
tier=${1:-quick}
cd "$(dirname "$0")/.." || exit 2
for p in C01 C02 C03 C04 C05 C06 C07 C08 C09 C10 C11 C12 C13 C14 C15 C16 C17; do
  s=$(date +%s)
  out=$(./check $p $tier 2>&1); rc=$?
  e=$(date +%s)
  echo "$p rc=$rc $((e-s))s :: $(echo "$out" | tail -1 | cut -c1-220)"
  echo "$out" | grep -E "^(VIOLATION|HARNESS-ERROR|INCONCLUSIVE)" | head -5
done
